"""
C runtime rules on the clang AST (both build variants):
EC3 extensible processors / prefix coders / alias (C sites of D3, C3, D7),
CA2 switch coverage, CC2 storage partitions, CD4 sign extension, EC2 batch path.
"""

from __future__ import annotations

from typing import Any, Dict, List, Optional, Set, Tuple

from .cmodel import C_RT, get_c, get_macros
from .core import Finding, Inconclusive, Repo, RuleResult, rule, short
from .gomodel import Node, go_src


def walk(n: Any):
    if isinstance(n, dict):
        yield n
        for v in n.values():
            yield from walk(v)
    elif isinstance(n, list):
        for v in n:
            yield from walk(v)


def calls(n: Any, name: Optional[str] = None) -> List[Node]:
    return [x for x in walk(n) if x.get("k") == "call" and (name is None or go_src(x.f) == name)]


def strip(e: Node) -> Node:
    while e.k in ("paren",) or (e.k == "conv"):
        e = e.x
    return e


def txt(e: Node) -> str:
    return go_src(e).replace("(", "").replace(")", "").replace(" ", "")


VARIANTS = (("le", False), ("be", True))


@rule("EC3", "C runtime: extensible processors, prefix coders and alias dispatch follow the layout rule (both build variants)")
def ec3(repo: Repo) -> RuleResult:
    from .flows import c_runtime
    from .normal import C as K, V, show
    from .pyflow import single_atom
    from .rules_d2 import CS, ENC, Judged, _emit, _only_calls, check_children, judge_prefix, judge_processor, truth

    res = RuleResult("EC3", floor=10)
    for vname, be in VARIANTS:
        try:
            L = c_runtime(repo, be)
        except Inconclusive as e:
            res.unsure(f"EC3[{vname}]: {e}")
            continue
        child_prims = ("BpEndecodeMessageField", "BpEndecodeInt", "BpHandleIntSignAfterEndecode", "BpCopyBufferBits")
        for fn, kind in (("BpEndecodeMessage", "message"), ("BpEndecodeArray", "array")):
            try:
                f = L.func(fn)
                paths = L.flow(None, primitives=(CS.base,) + child_prims, names=CS.names).run(f)
            except Inconclusive as e:
                res.unsure(f"EC3[{vname}]: {fn}: {e}")
                continue
            j = Judged()
            judge_processor(paths, CS, kind, j, lambda e: None)
            judge_prefix(paths, CS, kind, j)
            check_children(paths, CS, kind, j)
            res.inst(part="c", function=fn, variant=vname, kind=kind, paths=len(paths), **j.info)
            _emit(res, "EC3", "c", CS, fn, f.lineno, j, f"c-{vname}")
        for fn in ("BpEncodeArrayExtensibleAhead", "BpDecodeArrayExtensibleAhead", "BpEncodeMessageExtensibleAhead", "BpDecodeMessageExtensibleAhead"):
            res.inst(part="c", function=fn, variant=vname, present=L.has(fn))
        # BpEndecodeInt: copy then sign step
        try:
            f = L.func("BpEndecodeInt")
            paths = L.flow(None, primitives=(CS.base, "BpHandleIntSignAfterEndecode"), names=CS.names).run(f)
            shapes = []
            ok = True
            for p in paths:
                evs = _only_calls(p)
                shapes.append(str(evs))
                if not (len(evs) == 2 and evs[0].name == CS.base and [show(a) for a in evs[0].args] == ["nbits", "ctx", "data"] and evs[1].name == "BpHandleIntSignAfterEndecode" and [show(a) for a in evs[1].args] == ["size", "nbits", "ctx", "data"]):
                    ok = False
            res.inst(part="c", function="BpEndecodeInt", variant=vname, body=shapes)
            if not ok:
                fd = Finding("EC3", C_RT, f.lineno, "BpEndecodeInt", str(shapes), "signed integers are not: copy nbits, then the sign step with (size, nbits)", witness="negative int5 decodes as positive", tag="c:BpEndecodeInt")
                fd.part = "c"
                res.bad(fd)
        except Inconclusive as e:
            res.unsure(f"EC3[{vname}]: {e}")
        # BpEndecodeBaseType: one copy in the right orientation, cursor advanced by nbits exactly once
        try:
            f = L.func("BpEndecodeBaseType")
            paths = L.flow(None, primitives=("BpCopyBufferBits", "BpBaseTypeStorageSize"), names=CS.names).run(f)
            forms = []
            for p in paths:
                enc = truth(p, ENC)
                adv = [e for e in p.effects if e.kind == "setattr" and e.name == "cur"]
                cps = [e for e in p.effects if e.kind == "call" and e.name == "BpCopyBufferBits"]
                forms.append((enc, [str(c) for c in cps], [str(a) for a in adv]))
                if len(adv) != 1 or adv[0].args[-1] != V("cur") + V("nbits"):
                    fd = Finding("EC3", C_RT, f.lineno, "BpEndecodeBaseType", str([str(a) for a in adv]), "the stream cursor is not advanced by nbits exactly once per base value", witness="every field after the first decodes from the wrong position", tag=f"c:BpEndecodeBaseType:advance:{vname}")
                    fd.part = "c"
                    res.bad(fd)
                if len(cps) != 1 or enc is None:
                    fd = Finding("EC3", C_RT, f.lineno, "BpEndecodeBaseType", str([str(c) for c in cps]), f"a base value is copied {len(cps)} times on the path under {p.guard_text()} (expected once, selected by the encode flag)", tag=f"c:BpEndecodeBaseType:calls:{vname}")
                    fd.part = "c"
                    res.bad(fd)
                    continue
                a = cps[0].args
                adv_i = p.effects.index(adv[0]) if adv else -1
                if adv_i != -1 and adv_i < p.effects.index(cps[0]):
                    fd = Finding("EC3", C_RT, f.lineno, "BpEndecodeBaseType", "", "the cursor is advanced before the bits are copied", tag=f"c:BpEndecodeBaseType:advance-order:{vname}")
                    fd.part = "c"
                    res.bad(fd)
                s_, cur = "ctx.s", "cur"
                got = [show(x) for x in a]
                vi = 2 if enc else 1
                want = ["nbits", s_, None, cur, "0"] if enc else ["nbits", None, s_, "0", cur]
                got_n = [None if i == vi else g for i, g in enumerate(got)]
                value_ok = len(got) == 5 and got[vi] != s_ and (be or got[vi] == "data")
                if got_n != want or not value_ok:
                    fd = Finding("EC3", C_RT, f.lineno, "BpEndecodeBaseType", str(got), "the bit copier is not called as (nbits, stream, value, ctx->i, 0) on encode and (nbits, value, stream, 0, ctx->i) on decode", witness="encode copies from the stream into the value", tag=f"c:BpEndecodeBaseType:calls:{vname}")
                    fd.part = "c"
                    res.bad(fd)
            res.inst(part="c", function="BpEndecodeBaseType", variant=vname, paths=forms)
        except Inconclusive as e:
            res.unsure(f"EC3[{vname}]: {e}")
    return res


def _guards_of(fn: Node, target: Node) -> Set[str]:
    """Conditions (as compact text, '!' for the else side) of the ifs enclosing target."""
    out: Set[str] = set()

    def rec(stmts: List[Node], conds: List[str]) -> bool:
        for s in stmts:
            if any(x is target for x in walk(s)) and s.k not in ("if", "for", "switch", "block"):
                out.update(conds)
                return True
            if s.k == "if":
                c = txt(s.cond)
                if rec(s.body.stmts, conds + [c]):
                    return True
                if s.orelse is not None:
                    if rec([s.orelse] if s.orelse.k == "if" else s.orelse.stmts, conds + ["!" + c]):
                        return True
            elif s.k == "for":
                if rec(s.body.stmts, conds):
                    return True
            elif s.k == "switch":
                for cs in s.cases:
                    if rec(cs.body, conds + [f"case:{','.join(go_src(v) for v in (cs.vals or []))}"]):
                        return True
            elif s.k == "block":
                if rec(s.stmts, conds):
                    return True
        return False

    rec(fn.body.stmts, [])
    return out


# --------------------------------------------------------------------------
# CA2 switch coverage
# --------------------------------------------------------------------------

# AST class -> flag macro (as emitted by CFormatter.format_bp_* through the constructor macros)
CLASS_FLAG = {"Bool": "BP_TYPE_BOOL", "Int": "BP_TYPE_INT", "Uint": "BP_TYPE_UINT", "Byte": "BP_TYPE_BYTE", "Enum": "BP_TYPE_ENUM", "Alias": "BP_TYPE_ALIAS", "Array": "BP_TYPE_ARRAY", "Message": "BP_TYPE_MESSAGE"}
CLASS_MACRO = {"Bool": "BpBool", "Int": "BpInt", "Uint": "BpUint", "Byte": "BpByte", "Enum": "BpEnum", "Alias": "BpAlias", "Array": "BpArray", "Message": "BpMessage"}

# (function, switch subject text, domain, expected handler per class kind)
# (function, dispatch subject as a value over the parameters, domain, expected handler per class kind)
SWITCHES = [
    ("BpEndecodeMessageField", "descriptor.type.flag", "FieldType", "endecode"),
    ("BpEndecodeAlias", "descriptor.to.flag", "AliasTarget", "endecode"),
    ("BpEndecodeArray", "descriptor.element_type.flag", "ElemType", "endecode"),
    ("BpJsonFormatMessageField", "descriptor.type.flag", "FieldType", "json"),
    ("BpJsonFormatAlias", "descriptor.to.flag", "AliasTarget", "json"),
    ("BpJsonFormatArray", "descriptor.element_type.flag", "ElemType", "json"),
    ("BpJsonFormatBaseType", "flag", "BaseLeaf", "jsonbase"),
]
HANDLER_CALLS = ("BpEndecodeInt", "BpEndecodeBaseType", "processor", "BpJsonFormatBaseType", "json_formatter")


@rule("CA2", "C runtime: every switch over a type flag covers the flags its callers can pass, and routes each to the right handler")
def ca2(repo: Repo) -> RuleResult:
    from .rules_a import type_domains

    res = RuleResult("CA2", floor=12)
    doms = type_domains(repo)
    mac = get_macros(repo)
    flags = mac.type_flags()
    byval = {v: k for k, v in flags.items()}
    # the flag each constructor macro stores
    for cls, mname in CLASS_MACRO.items():
        try:
            params, sname, elems = mac.initializer(mname)
        except Inconclusive as e:
            res.unsure(f"CA2: {e}")
            continue
        res.inst(part="macros", macro=mname, flag=elems[0] if elems else None)
        if not elems or elems[0] != CLASS_FLAG[cls]:
            fd = Finding("CA2", "lib/c/bitproto.h", 0, mname, str(elems[:1]), f"constructor macro {mname} stores flag {elems[:1]}, expected {CLASS_FLAG[cls]}", witness=f"every {cls} field is dispatched as another type", tag=f"macro:{mname}:flag")
            fd.part = "macros"
            res.bad(fd)
    if len(set(flags.values())) != len(flags) or not set(CLASS_FLAG.values()) <= set(flags):
        fd = Finding("CA2", "lib/c/bitproto.h", 0, "BP_TYPE_*", str(flags), "type flag values are missing or not pairwise distinct", tag="flags:distinct")
        fd.part = "macros"
        res.bad(fd)
    domains: Dict[str, Set[str]] = {k: {c.name for c in v} for k, v in doms.items()}
    domains["BaseLeaf"] = {"Bool", "Int", "Uint", "Byte", "Enum"}
    from .flows import c_runtime
    from .fold import by_name, lit_value

    for vname, be in VARIANTS:
        try:
            L = c_runtime(repo, be)
        except Inconclusive as e:
            res.unsure(f"CA2[{vname}]: {e}")
            continue
        for fname, subject, dom, kind in SWITCHES:
            try:
                fn = L.func(fname)
                paths = L.flow(None, names={}, primitives=("BpEndecodeInt", "BpEndecodeBaseType", "BpJsonFormatBaseType", "BpJsonFormatString", "BpEndecodeMessageField", "BpJsonFormatMessageField", "BpHandleIntSignAfterEndecode", "BpEncodeArrayExtensibleAhead", "BpDecodeArrayExtensibleAhead", "BpEncodeMessageExtensibleAhead", "BpDecodeMessageExtensibleAhead"), havoc_on=(), max_paths=20000).run(fn)
            except Inconclusive as e:
                res.unsure(f"CA2[{vname}]: {fname}: {e}")
                continue
            res.inst(part="c", function=fname, variant=vname, domain=dom, paths=len(paths))
            for cls in sorted(domains[dom]):
                fl = CLASS_FLAG[cls]
                want = _handler(kind, cls)
                if not want:
                    continue
                # a non-standard element width keeps the batch path of arrays out of the way
                reached = _reached_handlers(paths, subject, flags[fl], lit_value, by_name)
                res.inst(part="c", function=fname, variant=vname, flag=fl, reached=sorted(reached))
                names = {w.rstrip("(").lstrip(".") for w in want}
                others = reached - names
                if not (reached & names) or others:
                    fd = Finding("CA2", C_RT, fn.lineno, fname, f"{subject} == {fl}", f"with {subject} == {fl} ({cls}) the function reaches {sorted(reached) or 'no handler'}, expected a call of {want}: the value is skipped or handled by the wrong routine", witness=f"a {cls} in that position (e.g. an array of enums in JSON prints `[,,]`)", tag=f"c:{fname}:{fl}:fold")
                    fd.part = "c"
                    res.bad(fd)
    return res


def show_(x: Any) -> str:
    from .normal import show

    return show(x)


def _reached_handlers(paths: List[Any], subject: str, flagval: int, lit_value: Any, by_name: Any) -> Set[str]:
    """Handler calls on the paths (and loop body paths) that are feasible when
    the dispatch subject has the given flag value."""
    vals = {subject: flagval, "descriptor.element_type.nbits": 12, "descriptor.element_type.to_flag": 0}
    repl = by_name(vals)
    out: Set[str] = set()

    def feasible_(p_: Any) -> bool:
        return all(lit_value(k_, t_, repl) is not False for k_, t_ in p_.guards)

    def visit(p_: Any) -> None:
        for e in p_.effects:
            if e.kind == "call" and e.name in HANDLER_CALLS:
                out.add(e.name)
            elif e.kind == "loop":
                for sp in e.sub or []:
                    if feasible_(sp):
                        visit(sp)

    for p_ in paths:
        if feasible_(p_):
            visit(p_)
    return out


def fold_c(e: Node, env: Dict[str, int], funcs: Dict[str, Node], depth: int = 0) -> Optional[int]:
    """Constant folding of a side-effect free C condition over given integer
    values of its variables; predicate helpers (single return) are inlined."""
    k = e.k
    if k == "int":
        return e.v
    key = "$" + txt(e)
    if key in env:
        return env[key]
    if k == "id":
        return env.get(e.name)
    if k in ("paren", "conv"):
        return fold_c(e.x, env, funcs, depth)
    if k == "un":
        v = fold_c(e.x, env, funcs, depth)
        if v is None:
            return None
        return {"!": int(not v), "-": -v, "+": v}.get(e.op)
    if k == "bin":
        if e.op == "&&":
            l = fold_c(e.l, env, funcs, depth)
            if l is not None and not l:
                return 0
            r = fold_c(e.r, env, funcs, depth)
            return None if l is None or r is None else int(bool(l) and bool(r))
        if e.op == "||":
            l = fold_c(e.l, env, funcs, depth)
            if l:
                return 1
            r = fold_c(e.r, env, funcs, depth)
            return None if l is None or r is None else int(bool(l) or bool(r))
        l, r = fold_c(e.l, env, funcs, depth), fold_c(e.r, env, funcs, depth)
        if l is None or r is None:
            return None
        try:
            return int({"==": l == r, "!=": l != r, "<": l < r, "<=": l <= r, ">": l > r, ">=": l >= r, "+": l + r, "-": l - r, "*": l * r, "%": l % r if r else None, "&": l & r, "|": l | r, "<<": l << r, ">>": l >> r}[e.op])
        except (KeyError, TypeError):
            return None
    if k == "call" and e.f.k == "id" and e.f.name in funcs and depth < 3:
        fn = funcs[e.f.name]
        rets = [s for s in fn.body.stmts if s.k == "return"]
        if len(rets) != 1 or len(fn.body.stmts) != 1:
            return None
        args = [fold_c(a, env, funcs, depth) for a in e.args]
        if any(a is None for a in args):
            return None
        return fold_c(rets[0].vals[0], {p.name: a for p, a in zip(fn.params, args)}, funcs, depth + 1)
    if k == "cond":
        c = fold_c(e.c, env, funcs, depth)
        if c is None:
            return None
        return fold_c(e.a if c else e.b, env, funcs, depth)
    return None


HANDLER_CALLS = ("BpEndecodeBaseType", "BpEndecodeInt", "BpJsonFormatBaseType", "processor", "json_formatter")


def reach_calls(stmts: List[Node], env: Dict[str, int], funcs: Dict[str, Node]) -> Tuple[Set[str], bool]:
    """Handler calls reachable when the dispatch conditions are folded under env
    (conditions that do not fold - NULL checks, data - are followed both ways)."""
    reached: Set[str] = set()
    undecided = [False]
    env = dict(env)
    fptr: Dict[str, str] = {}

    def note_calls(n: Any) -> None:
        for x in calls(n):
            nm = go_src(x.f)
            last = nm.split(".")[-1]
            last = fptr.get(last, last)
            if last in HANDLER_CALLS or nm in HANDLER_CALLS:
                reached.add(last if last in HANDLER_CALLS else nm)

    def run(ss: List[Node]) -> None:
        for st in ss:
            k = st.k
            if k == "assign" and st.lhs[0].k == "id" and st.op in (":=", "="):
                v = fold_c(st.rhs[0], env, funcs)
                if v is not None:
                    env[st.lhs[0].name] = v
                else:
                    env.pop(st.lhs[0].name, None)
                    last = go_src(strip(st.rhs[0])).split(".")[-1]
                    if last in ("processor", "json_formatter"):
                        fptr[st.lhs[0].name] = last
                note_calls(st.rhs[0])
            elif k == "if":
                v = fold_c(st.cond, env, funcs)
                if v is None or v:
                    run(st.body.stmts)
                if (v is None or not v) and st.orelse is not None:
                    run([st.orelse] if st.orelse.k == "if" else st.orelse.stmts)
            elif k == "switch":
                v = fold_c(st.tag, env, funcs)
                if v is None:
                    undecided[0] = True
                    for cs in st.cases:
                        run(cs.body)
                else:
                    hit = [cs for cs in st.cases if any(fold_c(x, env, funcs) == v for x in (cs.vals or []))]
                    dflt = [cs for cs in st.cases if cs.get("default")]
                    for cs in (hit or dflt):
                        run(cs.body)
            elif k == "for":
                run(st.body.stmts)
            elif k == "block":
                run(st.stmts)
            else:
                note_calls(st)

    run(stmts)
    return reached, undecided[0]


def _handler(kind: str, cls: str) -> Optional[List[str]]:
    base = cls in ("Bool", "Uint", "Byte", "Enum")
    if kind == "endecode":
        if cls == "Int":
            return ["BpEndecodeInt("]
        if base:
            return ["BpEndecodeBaseType("]
        return [".processor("]
    if kind == "json":
        if base or cls == "Int":
            return ["BpJsonFormatBaseType("]
        return [".json_formatter("]
    return None


# --------------------------------------------------------------------------
# CC2 storage partitions in C
# --------------------------------------------------------------------------


def _le_chain(stmts: List[Node], var: str) -> Optional[List[Tuple[Optional[int], List[Node]]]]:
    """`if (v <= a) X else if (v <= b) Y ... else Z` or sequential
    `if (v <= a) return ..;` -> [(a, X), (b, Y), (None, Z)]."""
    out: List[Tuple[Optional[int], List[Node]]] = []
    rest = list(stmts)
    while rest:
        s = rest.pop(0)
        if s.k == "if" and s.cond.k == "bin" and s.cond.op == "<=" and txt(s.cond.l) == var and s.cond.r.k == "int":
            out.append((s.cond.r.v, s.body.stmts))
            if s.orelse is not None:
                rest = ([s.orelse] if s.orelse.k == "if" else [N_block(s.orelse.stmts)]) + rest
        elif s.k == "blockstmts":
            out.append((None, s.stmts))
            return out
        elif s.k == "return":
            out.append((None, [s]))
            return out
        else:
            return None
    return out


def N_block(stmts: List[Node]) -> Node:
    from .gomodel import N

    return N("blockstmts", 0, stmts=stmts)


def _partition_from_chain(chain: List[Tuple[Optional[int], List[Node]]], value_of) -> Optional[Dict[int, Any]]:
    part: Dict[int, Any] = {}
    lo = 1
    for bound, body in chain:
        v = value_of(body)
        hi = 64 if bound is None else min(bound, 64)
        for w in range(lo, hi + 1):
            part[w] = v
        lo = hi + 1
    if lo <= 64:
        return None
    return part


@rule("CC2", "C runtime: width -> storage partitions (staging size, JSON cast classes, sign cases) equal the generator's")
def cc2(repo: Repo) -> RuleResult:
    from .rules_d3 import storage_partition_py

    res = RuleResult("CC2", floor=3)
    gen = storage_partition_py(repo)
    if gen is None:
        res.unsure("CC2: generator partition not derivable (see C2)")
        return res
    want = {w: gen[w] // 8 for w in range(1, 65)}
    from .flows import c_runtime
    from .fold import by_name, lit_value
    from .node2py import PTR_WIDTH
    from .normal import show
    from .pyflow import single_atom, str_of

    # BE: BpBaseTypeStorageSize folded over widths 1..64
    try:
        Lbe = c_runtime(repo, True)
        fn = Lbe.func("BpBaseTypeStorageSize")
        pn = fn.args.args[0].arg
        paths = Lbe.flow(None, names={}, havoc_on=()).run(fn)
        part: Optional[Dict[int, int]] = {}
        for w in range(1, 65):
            feas = [p_ for p_ in paths if all(lit_value(k_, t_, by_name({pn: w})) is True for k_, t_ in p_.guards)]
            vals = {p_.ret.const_value() for p_ in feas if p_.ret is not None}
            if len(vals) != 1 or None in vals:
                part = None
                break
            part[w] = vals.pop()  # type: ignore[index]
        if part is None:
            # a computed form (a loop doubling the size): run the function on each width as a constant argument
            from .normal import C as _Cw

            part = {}
            for w in range(1, 65):
                rets_w = [p_ for p_ in Lbe.flow(None, names={}, havoc_on=()).run(fn, {pn: _Cw(w)}) if p_.done == "return" and p_.ret is not None and not p_.guards]
                vals = {p_.ret.const_value() for p_ in rets_w}
                if len(vals) != 1 or None in vals:
                    part = None
                    break
                part[w] = vals.pop()  # type: ignore[index]
        res.inst(part="c-be", function="BpBaseTypeStorageSize", classes=sorted(set(part.values())) if part else None)
        if part is None:
            res.unsure("CC2: BpBaseTypeStorageSize does not fold to one constant per width")
        else:
            diff = [w for w in range(1, 65) if part[w] != want[w]]
            if diff:
                fd = Finding("CC2", C_RT, fn.lineno, "BpBaseTypeStorageSize", f"width {diff[0]} -> {part[diff[0]]} bytes", f"big-endian staging reverses {part[diff[0]]} bytes for width {diff[0]}, but the generated struct stores it in {want[diff[0]]} bytes", witness=f"uint{diff[0]} on a big-endian host: bytes are taken from the wrong end of the storage", tag="BpBaseTypeStorageSize")
                fd.part = "c-be"
                res.bad(fd)
    except Inconclusive as e:
        res.unsure(f"CC2: {e}")
    # JSON width classes (both variants share the code; use default): type the value is read through, per flag and width
    try:
        L = c_runtime(repo, False)
        fn = L.func("BpJsonFormatBaseType")
        params = [a.arg for a in fn.args.args]
        flags = get_macros(repo).type_flags()
        paths = L.flow(None, names={}, primitives=("BpJsonFormatString",), havoc_on=()).run(fn)
        for fname_, signed in (("BP_TYPE_INT", True), ("BP_TYPE_UINT", False), ("BP_TYPE_ENUM", False)):
            classes = set()
            reported = False
            for w in range(1, 65):
                repl = by_name({params[0]: flags[fname_], params[1]: w})
                feas = [p_ for p_ in paths if all(lit_value(k_, t_, repl) is not False for k_, t_ in p_.guards)]
                cs = [e for p_ in feas for e in p_.effects if e.kind == "call" and e.name == "BpJsonFormatString"]
                if len(feas) != 1 or len(cs) != 1 or len(cs[0].args) < 3:
                    res.unsure(f"CC2: BpJsonFormatBaseType: {len(feas)} paths / {len(cs)} format calls for {fname_} width {w}")
                    reported = True
                    break
                e = cs[0]
                va = single_atom(e.args[2])
                ty = None
                if va is not None and va[0] == "load" and not isinstance(va[1], str):
                    pa = single_atom(va[1])
                    if pa is not None and pa[0] == "ptr" and show(pa[2]) == params[3]:
                        ty = pa[1]
                classes.add(ty)
                exp = f"{'' if signed else 'u'}int{gen[w]}_t"
                if ty is None:
                    res.unsure(f"CC2: BpJsonFormatBaseType: value `{show(e.args[2])}` for {fname_} width {w} is not read through a typed pointer to data")
                    reported = True
                    break
                if ty != exp:
                    fd = Finding("CC2", C_RT, fn.lineno, "BpJsonFormatBaseType", f"width {w}: {ty}*", f"a {'signed' if signed else 'unsigned'} value of width {w} is read through {ty}*, its storage is {exp}", witness=f"{'int' if signed else 'uint'}{w} prints a wrong / sign-flipped / out-of-bounds value in JSON", tag=f"BpJsonFormatBaseType:{'s' if signed else 'u'}")
                    fd.part = "c"
                    res.bad(fd)
                    reported = True
                    break
                fmt = str_of(e.args[1]) or ""
                letter = fmt.rstrip('"')[-1:] if fmt else ""
                if (signed and letter != "d") or ((not signed) and letter != "u"):
                    fd = Finding("CC2", C_RT, fn.lineno, "BpJsonFormatBaseType", fmt, f"printf conversion {fmt} does not match the {'signed' if signed else 'unsigned'} cast", witness="a negative int prints as a large positive number (or the reverse)", tag=f"BpJsonFormatBaseType:letter:{'s' if signed else 'u'}")
                    fd.part = "c"
                    res.bad(fd)
                    reported = True
                    break
            res.inst(part="c", function="BpJsonFormatBaseType", flag=fname_, signed=signed, classes=sorted(str(x) for x in classes))
    except Inconclusive as e:
        res.unsure(f"CC2: {e}")
    return res


# --------------------------------------------------------------------------
# CD4 C runtime sign extension
# --------------------------------------------------------------------------


@rule("CD4", "C runtime sign extension: only storage-sized widths are skipped; each case works on the unsigned type of its own size from bit nbits-1")
def cd4(repo: Repo) -> RuleResult:
    """BpHandleIntSignAfterEndecode(size, nbits, ctx, data) is summarised by the
    path engine and folded over every (size in 1,2,4,8) x (nbits in 1..8*size)
    x (encode, decode): decoding a width narrower than its storage must test
    bit nbits-1 of the size-byte unsigned value at data and OR in all bits
    from nbits upward; every other case must leave the value alone."""
    from .flows import c_runtime
    from .fold import by_name, feasible, replace_atoms
    from .node2py import PTR_WIDTH
    from .normal import C as K, show
    from .pyflow import single_atom

    res = RuleResult("CD4", floor=5)
    try:
        L = c_runtime(repo, False)
        fn = L.func("BpHandleIntSignAfterEndecode")
        params = [a.arg for a in fn.args.args]
        if len(params) != 4:
            raise Inconclusive(f"parameters {params}")
        psize, pnbits, pctx, pdata = params
        paths = L.flow(None, names={}, havoc_on=()).run(fn)
    except Inconclusive as e:
        res.unsure(f"CD4: {e}")
        return res
    line = fn.lineno

    def width_of(base: Any) -> Tuple[int, str]:
        a = single_atom(base) if base is not None else None
        if a is not None and a[0] == "ptr":
            return PTR_WIDTH.get(a[1], 0), show(a[2])
        return 1, show(base) if base is not None else "?"

    def bad(tag: str, msg: str, construct: str = "", witness: str = "") -> None:
        if not any(f.tag == tag for f in res.findings):
            res.bad(Finding("CD4", C_RT, line, fn.name, construct, msg, witness=witness, tag=tag))

    points = 0
    for size in (1, 2, 4, 8):
        W = 8 * size
        # the generator passes size = bytes of the smallest storage holding nbits
        for nbits in range(1 if W == 8 else W // 2 + 1, W + 1):
            for enc in (1, 0):
                repl = by_name({psize: size, pnbits: nbits, f"{pctx}.is_encode": enc})
                ok, unfolded = feasible(paths, repl, ignore=lambda k: k[0] == "truthy" and any(a[0] == "load" for a in _deep_atoms(k[1])))
                if unfolded:
                    res.unsure(f"CD4: condition `{str(unfolded[0])[:100]}` does not fold for size {size}, nbits {nbits}")
                    return res
                points += 1
                stores_by_path = [[e for e in p_.effects if e.kind == "store"] for p_ in ok]
                others = [e for p_ in ok for e in p_.effects if e.kind not in ("store",)]
                if others:
                    res.unsure(f"CD4: `{others[0]!r}` on a sign-extension path is outside the enumerated forms")
                    return res
                need = (not enc) and nbits < W
                storing = [(p_, st_) for p_, st_ in zip(ok, stores_by_path) if st_]
                if not need:
                    if storing:
                        if enc:
                            bad("c:sign:encode", "the sign step is not skipped when encoding", construct=repr(storing[0][1][0]))
                        else:
                            bad("c:sign:full-width", f"a width that fills its storage (int{nbits} in {W} bits) is sign-extended: the shift by {nbits} is undefined", construct=repr(storing[0][1][0]))
                    continue
                if not storing:
                    if not any(p_.done == "return" for p_ in ok):
                        res.unsure(f"CD4: no path for size {size}, nbits {nbits}")
                        return res
                    # is the width skipped, or has the storage size no case?
                    skipped_early = all(not any(k[0] == "truthy" and any(a[0] == "load" for a in _deep_atoms(k[1])) for k, _ in p_.guards) for p_ in ok)
                    if skipped_early:
                        bad("c:sign:skip-set", f"width {nbits} (stored in {W} bits) is not sign-extended: the width is skipped, or storage size {W} has no sign-extension case", construct=f"size={size}, nbits={nbits}", witness=f"int{nbits} holding -1 decodes as a large positive number")
                    continue
                for p_, sts in storing:
                    if len(sts) != 1:
                        bad("c:sign:stores", f"{len(sts)} stores on one sign-extension path", construct=str([repr(x) for x in sts]))
                        continue
                    st_ = sts[0]
                    w, base = width_of(st_.recv)
                    if w != size or base != pdata:
                        bad(f"c:sign:case{W}:type", f"case {W} stores through a {8 * w}-bit access at `{base}` instead of the {W}-bit unsigned value at data: wrong bytes are widened", construct=repr(st_), witness=f"int{W - 3} in an int{W}_t")
                        continue
                    val = replace_atoms(st_.args[1], repl).const_value()
                    want = (-(1 << nbits)) % (1 << W)
                    if st_.op != "|=" or val is None or val % (1 << W) != want:
                        bad(f"c:sign:case{W}:mask", f"for int{nbits} in {W} bits the value is not ORed with ~((1 << nbits) - 1): `{st_.op} {val if val is not None else show(st_.args[1])}`", construct=repr(st_), witness="int5 holding -3")
                    # the test that selected this path
                    tests = [(k, t) for k, t in p_.guards if k[0] == "truthy" and any(a[0] == "load" for a in _deep_atoms(k[1]))]
                    okt = False
                    for k, t in tests:
                        tv = replace_atoms(k[1], repl)
                        a = single_atom(tv)
                        if t and a is not None and a[0] == "and":
                            consts = [x.const_value() for x in a[1] if x.const_value() is not None]
                            loads = [x for x in a[1] if x.const_value() is None]
                            if consts == [1 << (nbits - 1)] and len(loads) == 1:
                                la = single_atom(loads[0])
                                if la is not None and la[0] == "load":
                                    lw_, lbase = width_of(la[1]) if not isinstance(la[1], str) else (1, la[1])
                                    if lw_ == size and lbase == pdata:
                                        okt = True
                                    else:
                                        bad(f"c:sign:case{W}:type", f"case {W} tests a {8 * lw_}-bit value at `{lbase}` instead of the {W}-bit unsigned value at data", construct=show(tv), witness=f"int{W - 3} in an int{W}_t")
                                        okt = True
                        elif t and a is not None and a[0] == "mod8" and nbits == 3 and False:
                            okt = True
                    if not okt and not any(f.tag.startswith(f"c:sign:case{W}:type") for f in res.findings):
                        bad(f"c:sign:case{W}:test", f"for int{nbits} in {W} bits the test does not look at bit nbits-1", construct=str([show(replace_atoms(k[1], repl)) for k, _ in tests]), witness="int5 holding -3 / +3")
        res.inst(function=fn.name, case=W, widths=W)
    res.inst(function=fn.name, points=points, paths=len(paths))
    return res


# --------------------------------------------------------------------------
# EC2 batch path of arrays
# --------------------------------------------------------------------------


@rule("EC2", "C runtime: the contiguous array path is taken only for storage-sized integer elements (never on big-endian) and copies exactly nbits*cap bits")
def ec2(repo: Repo) -> RuleResult:
    """BpEndecodeArray is summarised by the path engine and folded over every
    (element flag, alias target flag, element width).  On the single feasible
    path the elements are handled either by one contiguous copy of
    nbits * cap bits from the array's first byte - allowed only on a
    little-endian build for (aliases of) byte / uint / enum / int elements
    whose width equals their storage - or by a loop of cap iterations that
    hands element k's address (data + k * size, or a cursor starting at data
    and advancing by size) to the element handler."""
    from .flows import c_runtime
    from .fold import by_name, lit_value, replace_atoms
    from .normal import C as K, V, show
    from .pyflow import single_atom

    res = RuleResult("EC2", floor=2)
    F = get_macros(repo).type_flags()
    byv = {v: k for k, v in F.items()}
    base_int = {F["BP_TYPE_BYTE"], F["BP_TYPE_UINT"], F["BP_TYPE_ENUM"], F["BP_TYPE_INT"]}
    elem_flags = [F[k] for k in ("BP_TYPE_BOOL", "BP_TYPE_INT", "BP_TYPE_UINT", "BP_TYPE_BYTE", "BP_TYPE_ENUM", "BP_TYPE_ALIAS", "BP_TYPE_MESSAGE")]
    alias_targets = [F[k] for k in ("BP_TYPE_BOOL", "BP_TYPE_INT", "BP_TYPE_UINT", "BP_TYPE_BYTE", "BP_TYPE_ARRAY")]
    HANDLERS = ("BpEndecodeBaseType", "BpEndecodeInt", "processor")
    for vname, be in VARIANTS:
        part = f"c-{vname}"
        try:
            L = c_runtime(repo, be)
            fn = L.func("BpEndecodeArray")
            params = [a.arg for a in fn.args.args]
            pdata = params[2] if len(params) == 3 else "data"
            paths = L.flow(None, names={}, primitives=("BpEndecodeBaseType", "BpEndecodeInt", "BpHandleIntSignAfterEndecode", "BpEncodeArrayExtensibleAhead", "BpDecodeArrayExtensibleAhead"), havoc_on=(), max_paths=20000).run(fn)
        except Inconclusive as e:
            res.unsure(f"EC2[{vname}]: {e}")
            continue
        ET = "descriptor.element_type"
        size, cap = V(f"{ET}.size"), V("descriptor.cap")
        reported: Set[str] = set()

        def bad(tag: str, msg: str, construct: str = "", witness: str = "") -> None:
            if tag in reported:
                return
            reported.add(tag)
            fd = Finding("EC2", C_RT, fn.lineno, "BpEndecodeArray", construct, msg, witness=witness, tag=tag)
            fd.part = part
            res.bad(fd)

        def addr_ok(arg: Any, lp: Any, body: Any) -> bool:
            kvar = lp.node.target.id if hasattr(lp.node, "target") and hasattr(lp.node.target, "id") else "k"
            if arg == V(pdata) + V(kvar) * size:
                return True
            aa = single_atom(arg)
            if aa is not None and aa[0] == "var" and aa[1].endswith(lp.op):
                nm = aa[1][: -len(lp.op)]
                init, end = lp.kw.get(nm), body.env.get(nm)
                return init is not None and init == V(pdata) and end is not None and end - arg == size
            return False

        points = batch_points = 0
        undecided = None
        for fl in elem_flags:
            for tf in (alias_targets if fl == F["BP_TYPE_ALIAS"] else [0]):
                for nb, esz in [(nb_, sz_) for nb_ in (1, 2, 7, 8, 9, 12, 15, 16, 17, 24, 31, 32, 33, 48, 63, 64, 128) for sz_ in ((None,) if ((fl != F["BP_TYPE_ALIAS"] or tf != F["BP_TYPE_ARRAY"]) and fl != F["BP_TYPE_MESSAGE"]) or nb_ not in (8, 12, 16, 48, 64) else (None, max(1, nb_ // 8), 2 * max(1, nb_ // 8)))]:
                    # storage size of the element: that of its width for base types; for arrays behind an
                    # alias and for messages any size can occur (also exactly nbits / 8)
                    base_sz = 1 if nb <= 8 else 2 if nb <= 16 else 4 if nb <= 32 else 8
                    vals_ = {f"{ET}.flag": fl, f"{ET}.to_flag": tf, f"{ET}.nbits": nb, "descriptor.extensible": 0, f"{ET}.size": esz if esz is not None else base_sz}
                    repl = by_name(vals_)
                    feas = []
                    for p_ in paths:
                        vals = [lit_value(k_, t_, repl) for k_, t_ in p_.guards]
                        if any(v is False for v in vals):
                            continue
                        for (k_, t_), v in zip(p_.guards, vals):
                            if v is None and any(ET in show(x) for x in k_[1:] if hasattr(x, "terms")):
                                undecided = show_lit_c(k_, t_)
                        feas.append(p_)
                    if undecided:
                        break
                    points += 1
                    leaf = tf if fl == F["BP_TYPE_ALIAS"] else fl
                    for p_ in feas:
                        tops = [e for e in p_.effects if e.kind == "call" and e.name == "BpEndecodeBaseType"]
                        loops = [e for e in p_.effects if e.kind == "loop"]
                        elem_loops = []
                        for lp in loops:
                            bodies = [sp for sp in (lp.sub or []) if all(lit_value(k_, t_, repl) is not False for k_, t_ in sp.guards)]
                            if any(e.kind == "call" and e.name in HANDLERS for sp in bodies for e in sp.effects):
                                elem_loops.append((lp, bodies))
                        if tops and not elem_loops:
                            batch_points += 1
                            if be:
                                bad("c:batch:be", "on a big-endian build the contiguous batch copy can be taken: element bytes would go to the wire in host order", construct=f"flag={byv.get(fl, fl)}, nbits={nb}", witness="uint16[2] on a big-endian host")
                            elif leaf not in base_int or nb not in (8, 16, 32, 64):
                                bad("c:batch:condition", f"the contiguous batch copy is taken for element flag={byv.get(fl, fl)}, to_flag={byv.get(tf, tf) if tf else '-'}, element_nbits={nb}: that memory is not a packed run of storage-sized integers", construct=f"path under {p_.guard_text()}", witness="type Flags = bool[8]; Flags[3] f  (an alias of an array whose row is 8 bits): the bools' storage bytes are bit-copied as if packed; uint24[2]: padding bits of each element go to the wire")
                            if len(tops) != 1 or replace_atoms(tops[0].args[0], repl) != K(nb) * cap or tops[0].args[2] != V(pdata):
                                bad(f"c:batch:copy:{vname}", "the batch copy is not BpEndecodeBaseType(element_nbits * cap, ctx, data)", construct=repr(tops[0]) if tops else "", witness="uint8[4]: wrong number of bits copied")
                        elif len(elem_loops) == 1 and not tops:
                            lp, bodies = elem_loops[0]
                            it = lp.args[0] if lp.args else None
                            if it is None or show(it) != "range(descriptor.cap)":
                                bad(f"c:elements:{vname}", f"the per-element loop runs over `{show(it) if it is not None else None}`, not k = 0..cap-1", construct=show(it) if it is not None else "", witness="uint3[4]")
                                continue
                            for sp in bodies:
                                hs = [e for e in sp.effects if e.kind == "call" and e.name in HANDLERS]
                                if len(hs) != 1:
                                    bad(f"c:elements:{vname}", f"an element is handled by {len(hs)} calls in one iteration", construct=str([repr(h) for h in hs]), witness="uint3[4]")
                                    continue
                                h = hs[0]
                                addr = h.args[0] if h.name == "processor" else h.args[-1]
                                if not addr_ok(addr, lp, sp):
                                    bad(f"c:elements:{vname}", "the per-element loop does not hand element k's address (data + k * element size) to the handler", construct=repr(h), witness="uint3[4]: every iteration processes element 0 / a wrong stride")
                                if h.name == "BpEndecodeBaseType" and replace_atoms(h.args[0], repl) != K(nb):
                                    bad(f"c:elements:nbits:{vname}", "an element is not processed with the element's bit width", construct=repr(h))
                                if h.name == "BpEndecodeInt" and (h.args[0] != size or replace_atoms(h.args[1], repl) != K(nb)):
                                    bad(f"c:elements:nbits:{vname}", "a signed element is not processed with (element size, element width)", construct=repr(h))
                        elif not tops and not elem_loops:
                            # no handler at all: CA2 judges coverage - unless the path moves the stream cursor itself
                            # (a non-extensible array has no skip): then the elements were copied by some other route
                            moved = [e for e in p_.effects if e.kind in ("setattr", "store") and ("ctx.i" in e.name or e.name == "i")]
                            if moved:
                                batch_points += 1
                                bad(f"c:batch:direct:{vname}", f"for element flag={byv.get(fl, fl)}, to_flag={byv.get(tf, tf) if tf else '-'}, element_nbits={nb} the array is moved without the element handlers (the stream cursor is advanced directly): neither the per-element staging of a big-endian build nor the type of the element is taken into account", construct=repr(moved[0]), witness="type Flags = bool[8]; Flags[3] on a big-endian build: 8 wire bits are not one byte of memory")
                        else:
                            bad(f"c:elements:{vname}", "elements are handled both by a contiguous copy and by an element loop on one path", construct=f"flag={byv.get(fl, fl)}, nbits={nb}")
                if undecided:
                    break
            if undecided:
                break
        if undecided:
            res.unsure(f"EC2[{vname}]: condition `{undecided}` cannot be folded over (flag, to_flag, element_nbits)")
        res.inst(part=part, function="BpEndecodeArray", points=points, batch_points=batch_points, paths=len(paths))
        if not be and not undecided and batch_points == 0:
            res.note("le: the contiguous path is never taken (allowed: it is an optimisation)")
    return res


def show_lit_c(k: Any, t: bool) -> str:
    from .pyflow import show_lit

    try:
        return show_lit(k, t)
    except Exception:
        return str(k)[:100]


# --------------------------------------------------------------------------
# EC1 the bit copier: path enumeration x (si, di) split x interval reasoning
# --------------------------------------------------------------------------


class CPath:
    def __init__(self) -> None:
        self.guards: List[Tuple[Node, bool]] = []
        self.env: Dict[str, Node] = {}
        self.consts: Dict[str, int] = {}
        self.stores: List[Tuple[Node, str, Node, List[Tuple[Node, bool]]]] = []
        self.label: List[str] = []

    def fork(self) -> "CPath":
        p = CPath()
        p.guards = list(self.guards)
        p.env = dict(self.env)
        p.consts = dict(self.consts)
        p.stores = list(self.stores)
        p.label = list(self.label)
        return p


def enumerate_paths(stmts: List[Node], start: CPath) -> List[CPath]:
    paths = [start]
    for st in stmts:
        nxt: List[CPath] = []
        for p in paths:
            if st.k == "assign":
                tgt = st.lhs[0]
                if tgt.k == "id":
                    if st.op in (":=", "="):
                        p.env[tgt.name] = st.rhs[0]
                        if st.rhs[0].k == "int":
                            p.consts[tgt.name] = st.rhs[0].v
                        else:
                            p.consts.pop(tgt.name, None)
                    else:
                        p.stores.append((tgt, st.op, st.rhs[0], list(p.guards)))
                else:
                    p.stores.append((tgt, st.op, st.rhs[0], list(p.guards)))
                nxt.append(p)
            elif st.k == "if":
                c = st.cond
                known: Optional[bool] = None
                cc = c
                neg = False
                while cc.k == "paren":
                    cc = cc.x
                if cc.k == "un" and cc.op == "!":
                    neg = True
                    cc = cc.x
                    while cc.k == "paren":
                        cc = cc.x
                if cc.k == "id" and cc.name in p.consts:
                    known = bool(p.consts[cc.name]) != neg
                branches = []
                if known is not False:
                    a = p.fork()
                    if known is None:
                        a.guards.append((c, True))
                        a.label.append(go_src(c))
                    branches.extend(enumerate_paths(st.body.stmts, a))
                if known is not True:
                    b = p.fork()
                    if known is None:
                        b.guards.append((c, False))
                        b.label.append("!(" + go_src(c) + ")")
                    if st.orelse is not None:
                        branches.extend(enumerate_paths([st.orelse] if st.orelse.k == "if" else st.orelse.stmts, b))
                    else:
                        branches.append(b)
                nxt.extend(branches)
            elif st.k in ("vardecl",):
                nxt.append(p)
            else:
                p.label.append(f"<{st.k}>")
                nxt.append(p)
        paths = nxt
    return paths


def _store_width(tgt: Node) -> Tuple[int, str]:
    """Bytes written by a store target `X[0]` and the base pointer name."""
    if tgt.k != "index":
        return 0, go_src(tgt)
    base = tgt.x
    w = 1
    b = base
    while b.k in ("paren", "conv"):
        if b.k == "conv":
            t = b.type.name.replace(" ", "")
            w = {"uint16_t*": 2, "uint32_t*": 4, "uint64_t*": 8, "unsignedchar*": 1, "uint8_t*": 1}.get(t, 0)
        b = b.x
    return w, go_src(b)


def _loads(e: Node) -> List[Tuple[int, str]]:
    out = []
    for x in walk(e):
        if x.get("k") == "index":
            out.append(_store_width(x))  # same shape: X[0] possibly through a cast
    return out


@rule("EC1", "C bit copier: on every path and every (si, di): 1 <= c <= n, word loads/stores stay inside the field's bytes, partial stores are masked to c bits")
def ec1(repo: Repo) -> RuleResult:
    """The loop body of BpCopyBufferBits is summarised by the path engine
    (helpers such as BpMin inlined, locals substituted).  Roles come from the
    summary itself: the chunk is what the remaining count decreases by, the
    bit indexes must advance by the same amount, the pointers by whole bytes.
    Every path is then specialised to the 64 residue pairs (si, di) and the
    obligations are discharged by interval reasoning over the remaining n."""
    from .flows import c_runtime
    from .fold import replace_atoms
    from .normal import C as K, Poly, V, pow2, show
    from .numeric import Facts, prove_ge, prove_le
    from .pyflow import single_atom
    from .rules_d import _and_parts

    res = RuleResult("EC1", floor=300)
    for vname, be in VARIANTS:
        part = f"c-{vname}"
        try:
            L = c_runtime(repo, be)
            fn = L.func("BpCopyBufferBits")
            params = [a.arg for a in fn.args.args]
            if len(params) != 5:
                raise Inconclusive(f"BpCopyBufferBits has parameters {params}")
            pn, pdst, psrc, pdi, psi = params
            top = L.flow(None, names={}, havoc_on=()).run(fn)
        except Inconclusive as e:
            res.unsure(f"EC1[{vname}]: {e}")
            continue
        loops = [e for p_ in top for e in p_.effects if e.kind == "loop"]
        if len({id(e.node) for e in loops}) != 1:
            res.unsure(f"EC1[{vname}]: BpCopyBufferBits is not a single loop over the remaining count (shape gate)")
            continue
        lp = loops[0]
        tag = lp.op
        n0, di0, si0, dst0, src0 = (V(x + tag) for x in (pn, pdi, psi, pdst, psrc))
        test = getattr(lp.node, "test", None)
        paths = [sp for sp in (lp.sub or []) if sp.done is None]
        res.note(f"{vname}: {len(paths)} paths through the loop body")
        if not (3 <= len(paths) <= 64):
            res.unsure(f"EC1[{vname}]: {len(paths)} paths (shape gate)")
            continue
        n = V("n")
        for pi, p in enumerate(paths):
            label = " & ".join(g for g in p.guard_text() if "[0]" not in g).replace(tag, "") or "<always>"
            n_end, di_end, si_end, dst_end, src_end = (p.env.get(x) for x in (pn, pdi, psi, pdst, psrc))
            if None in (n_end, di_end, si_end, dst_end, src_end):
                res.unsure(f"EC1[{vname}]: path `{label}`: a loop variable has no value at the end of the body")
                continue
            stores = [e for e in p.effects if e.kind == "store"]
            others = [e for e in p.effects if e.kind in ("call", "loop", "other")]
            if others:
                res.unsure(f"EC1[{vname}]: path `{label}`: `{others[0]!r}` in the loop body is outside the enumerated forms")
                continue
            feasible_pairs = 0
            for si in range(8):
                for di in range(8):
                    def repl(a: Any, si: int = si, di: int = di) -> Optional[Poly]:
                        if a[0] == "mod8" and a[1] == si0:
                            return K(si)
                        if a[0] == "mod8" and a[1] == di0:
                            return K(di)
                        if a[0] == "var" and a[1] == pn + tag:
                            return n
                        return None

                    sub = lambda q: replace_atoms(q, repl)
                    lo, hi = 1.0, float("inf")
                    feasible = True
                    for k, truth in p.guards:
                        if k[0] == "cmp":
                            d = sub(k[2])
                            op = k[1]
                            cv = d.const_value()
                            if cv is not None:
                                ok = {"<": cv < 0, "<=": cv <= 0, "==": cv == 0}[op]
                                if ok != truth:
                                    feasible = False
                                continue
                            # d = s*n + b
                            for s_ in (1, -1):
                                b = (d - n.scale(s_)).const_value()
                                if b is not None:
                                    break
                            else:
                                res.unsure(f"EC1[{vname}]: guard `{show(k[2])} {op} 0` is not linear in the remaining count")
                                feasible = False
                                continue
                            # s*n + b op 0
                            rel = op if truth else {"<": ">=", "<=": ">", "==": "!="}[op]
                            if s_ == -1:
                                rel = {"<": ">", "<=": ">=", ">=": "<=", ">": "<", "==": "==", "!=": "!="}[rel]
                                b = -b
                            # n + b rel 0   (after dividing by s)
                            if rel == "<":
                                hi = min(hi, -b - 1)
                            elif rel == "<=":
                                hi = min(hi, -b)
                            elif rel == ">=":
                                lo = max(lo, -b)
                            elif rel == ">":
                                lo = max(lo, -b + 1)
                            elif rel == "==":
                                lo, hi = max(lo, -b), min(hi, -b)
                        elif k[0] == "truthy":
                            tv = sub(k[1])
                            if tv == n:
                                if not truth:
                                    feasible = False
                            elif tv.const_value() is not None:
                                if bool(tv.const_value()) != truth:
                                    feasible = False
                            # anything else is data dependent: both sides considered
                    if not feasible or lo > hi:
                        continue
                    feasible_pairs += 1
                    facts = Facts()
                    facts.assume(n, lo, hi, "path guards")
                    cc = sub(n0 - n_end)
                    checks: List[Tuple[str, Tuple[Any, str], str]] = [
                        ("c >= 1", prove_ge(cc, K(1), facts), "the loop does not make progress (hang)"),
                        ("c <= n", prove_le(cc, n, facts), "more bits than remain are copied: the following field / padding is overwritten, n goes negative (endless loop)"),
                        ("di advances by c", (sub(di_end) == K(di) + cc, f"di -> {show(sub(di_end))}, c = {show(cc)}"), "the destination bit index goes out of step with the remaining count"),
                        ("si advances by c", (sub(si_end) == K(si) + cc, f"si -> {show(sub(si_end))}, c = {show(cc)}"), "the source bit index goes out of step with the remaining count"),
                        ("pointers advance by whole bytes", (dst_end == dst0 + Poly.atom(("div8", di0)) and src_end == src0 + Poly.atom(("div8", si0)), f"dst -> {show(dst_end)}, src -> {show(src_end)}"), "bytes are skipped or copied twice"),
                    ]
                    for e in stores:
                        base = e.recv
                        w = 1
                        ba = single_atom(base) if base is not None else None
                        if ba is not None and ba[0] == "ptr":
                            from .node2py import PTR_WIDTH

                            w = PTR_WIDTH.get(ba[1], 0)
                            base = ba[2]
                        idx, val = e.args[0], e.args[1]
                        if w == 0 or base is None:
                            res.unsure(f"EC1[{vname}]: store `{e!r}` has an unknown width")
                            continue
                        if base != dst_end or idx != K(0):
                            checks.append(("stores go to the current destination byte", (False, f"{show(base)}[{show(idx)}]"), "a byte other than the one the bit index points at is written"))
                            continue
                        loads = []
                        for a in _deep_atoms(val):
                            if a[0] == "load":
                                lb = a[1] if isinstance(a[1], Poly) else None
                                la = single_atom(lb) if lb is not None else None
                                lw_ = 1
                                if la is not None and la[0] == "ptr":
                                    from .node2py import PTR_WIDTH

                                    lw_ = PTR_WIDTH.get(la[1], 0)
                                loads.append(lw_)
                        if w > 1:
                            checks.append((f"{w}-byte store at dst only when di == 0", (di == 0, f"di = {di}"), "a word store at a non-zero bit offset clobbers the bits below it"))
                            checks.append((f"{w}-byte store needs n > {8 * (w - 1)}", prove_ge(n, K(8 * (w - 1) + 1), facts), f"the store writes {w} bytes but the remaining bits occupy fewer: bytes after the field (or the message buffer) are overwritten"))
                            for lw_ in loads:
                                if lw_ > 1:
                                    checks.append((f"{lw_}-byte load needs si + n > {8 * (lw_ - 1)}", prove_ge(n + K(si), K(8 * (lw_ - 1) + 1), facts), f"the load reads {lw_} bytes but the source bits end earlier: out-of-bounds read"))
                            checks.append((f"word path copies 8*{w} - si bits", (cc == K(8 * w - si), f"c = {show(cc)}"), "the chunk size does not match what the store carried"))
                        elif e.op == "=":
                            checks.append(("plain byte store only when di == 0", (di == 0, f"di = {di}"), "a plain store at a non-zero bit offset clobbers the bits below it"))
                            checks.append(("whole-byte path copies 8 - si bits", (cc == K(8 - si), f"c = {show(cc)}"), "the chunk size does not match what the store carried"))
                        elif e.op == "|=":
                            v = sub(val)
                            parts2 = _and_parts(v)
                            want_mask = -(K(255) * pow2(K(di) + cc)) - K(1)
                            okm = parts2 is not None and any(x == want_mask for x in parts2)
                            checks.append(("partial store masked with ~(0xff << (di + c))", (okm, f"value {show(v)}"), "bits above the chunk (belonging to the next field) are ORed into the destination byte"))
                        else:
                            checks.append((f"store operator `{e.op}`", (False, e.op), "unexpected store operator"))
                    for text, (ok, why), wit in checks:
                        res.inst(part=part, path=label, si=si, di=di, n=f"[{lo}, {hi}]", obligation=text, ok=bool(ok))
                        if not ok:
                            fd = Finding("EC1", C_RT, getattr(lp.node, "lineno", 0), "BpCopyBufferBits", f"path `{label}`, si={si}, di={di}, n in [{lo}, {hi}], c = {show(cc)}", f"obligation `{text}` fails ({why})", witness=wit, tag=f"{vname}:{text}")
                            fd.part = part
                            if not any(x.tag == fd.tag for x in res.findings):
                                res.bad(fd)
            if feasible_pairs == 0:
                res.note(f"{vname}: path `{label}` is infeasible for every (si, di)")
    return res


def _deep_atoms(p: Any) -> list:
    out = []

    def rec(q: Any) -> None:
        for m_ in q.terms:
            for a, _ in m_:
                out.append(a)
                for x in a[1:]:
                    if hasattr(x, "terms"):
                        rec(x)
                    elif isinstance(x, tuple):
                        for y in x:
                            if hasattr(y, "terms"):
                                rec(y)

    rec(p)
    return out


# --------------------------------------------------------------------------
# EC4 endian lint on the big-endian build
# --------------------------------------------------------------------------

MULTIBYTE_PTR = {"uint16_t*", "uint32_t*", "uint64_t*", "int16_t*", "int32_t*", "int64_t*", "unsignedshort*", "unsignedint*", "unsignedlong*"}
WIRE_NAMES = {"dst", "src", "le", "s"}


@rule("EC4", "big-endian build: no multi-byte access to wire/staging bytes; staging reverses exactly the storage size both ways")
def ec4(repo: Repo) -> RuleResult:
    res = RuleResult("EC4", floor=4)
    try:
        be = get_c(repo, True)
        le = get_c(repo, False)
    except Inconclusive as e:
        res.unsure(f"EC4: {e}")
        return res
    # (a) no cast of a wire-derived pointer to a multi-byte integer pointer in the BE variant
    n_casts = 0
    for fname, f in be.funcs.items():
        for x in walk(f):
            if x.get("k") == "conv" and x.type.name.replace(" ", "") in MULTIBYTE_PTR:
                n_casts += 1
                base = x.x
                while base.k in ("paren", "conv"):
                    base = base.x
                root = go_src(base).split(".")[0].split("[")[0]
                last = go_src(base).split(".")[-1]
                res.inst(part="be-casts", function=fname, cast=x.type.name, operand=go_src(base))
                if root in WIRE_NAMES or last in WIRE_NAMES:
                    fd = Finding("EC4", C_RT, x.line, fname, go_src(x), f"big-endian build: `{go_src(base)}` (wire / staging bytes) is accessed through {x.type.name}: the bytes are interpreted in host order", witness="uint32 on a big-endian host: the wire bytes come out reversed", tag=f"be:{fname}:{go_src(base)}")
                    res.bad(fd)
    # positive control: the little-endian variant must contain such casts (the word fast paths)
    ctl = sum(1 for x in walk(le.func("BpCopyBufferBits")) if x.get("k") == "conv" and x.type.name.replace(" ", "") in MULTIBYTE_PTR)
    res.inst(part="control", le_word_casts=ctl, be_casts=n_casts)
    if ctl < 2:
        res.unsure(f"EC4: positive control failed: the little-endian copier shows only {ctl} word casts (4 confirmed by hand)")
    # (b) staging in BpEndecodeBaseType (BE), from the path summary
    from .flows import c_runtime
    from .normal import C as K, V, call as pcall, show
    from .pyflow import single_atom
    from .rules_d2 import ENC, truth

    try:
        L = c_runtime(repo, True)
        fn = L.func("BpEndecodeBaseType")
        params = [a.arg for a in fn.args.args]
        paths = L.flow(None, names={"ctx.is_encode": "is_encode", "ctx.i": "cur"}, primitives=("BpCopyBufferBits", "BpBaseTypeStorageSize"), pure=("BpBaseTypeStorageSize",), havoc_on=()).run(fn)
    except Inconclusive as e:
        res.unsure(f"EC4: {e}")
        return res
    pnbits, pdata = (params[0], params[2]) if len(params) == 3 else ("nbits", "data")
    size = pcall("BpBaseTypeStorageSize", V(pnbits))
    summary = []
    for p_ in paths:
        enc = truth(p_, ENC)
        seq = [e for e in p_.effects if e.kind == "loop" or (e.kind == "call" and e.name == "BpCopyBufferBits")]
        kinds = ["loop" if e.kind == "loop" else "copy" for e in seq]
        summary.append((enc, kinds))
        if enc is None:
            res.unsure("EC4: a path of the big-endian BpEndecodeBaseType is not selected by the encode flag")
            continue
        copies = [e for e in seq if e.kind == "call"]
        loops = [e for e in seq if e.kind == "loop"]
        if len(copies) != 1:
            continue  # EC3 reports this
        stage = copies[0].args[2] if enc else copies[0].args[1]
        # the staged bytes are copied for exactly the field's nbits, between the stream at the cursor and the
        # staging buffer at bit 0
        cargs = [show(x) if hasattr(x, "terms") else str(x) for x in copies[0].args]
        res.inst(part="staging-copy", encode=enc, call=cargs)
        if len(cargs) == 5:
            want_c = [pnbits, None, None, "cur" if enc else "0", "0" if enc else "cur"]
            if cargs[0] != want_c[0]:
                res.bad(Finding("EC4", C_RT, fn.lineno, "BpEndecodeBaseType", f"BpCopyBufferBits({', '.join(cargs)})", f"big-endian build, {'encode' if enc else 'decode'}: `{cargs[0]}` bits are copied between the stream and the staging buffer, not the field's `{pnbits}`: the spare bits of the storage reach the bits of the following fields / bytes behind the message", witness="uint3 followed by another field on a big-endian build", tag=f"be:staging:nbits:{'enc' if enc else 'dec'}"))
            elif cargs[3] != want_c[3] or cargs[4] != want_c[4]:
                res.bad(Finding("EC4", C_RT, fn.lineno, "BpEndecodeBaseType", f"BpCopyBufferBits({', '.join(cargs)})", f"big-endian build, {'encode' if enc else 'decode'}: the bit offsets of the copy are ({cargs[3]}, {cargs[4]}), expected ({want_c[3]}, {want_c[4]}): stream at the cursor, staging buffer at bit 0", tag=f"be:staging:offsets:{'enc' if enc else 'dec'}"))
        sa_ = single_atom(stage)
        if sa_ is None or sa_[0] != "arr":
            res.bad(Finding("EC4", C_RT, fn.lineno, "BpEndecodeBaseType", show(stage), "big-endian build: the bits are not copied through a local staging buffer: the value's bytes reach the wire in host order", witness="uint32 on a big-endian host: the wire bytes come out reversed", tag="be:staging:buffer"))
            continue
        zero = sa_[2].replace(" ", "") == "unsignedchar[8]" and all(x.const_value() == 0 for x in (single_atom(sa_[3])[1] if single_atom(sa_[3]) is not None and single_atom(sa_[3])[0] == "tuple" else [K(1)]))
        if not zero:
            res.bad(Finding("EC4", C_RT, fn.lineno, "BpEndecodeBaseType", f"{sa_[1]}: {sa_[2]}", "the staging buffer is not a zero-initialised unsigned char[8]", witness="stale stack bytes are ORed into the decoded value", tag="be:staging:buffer"))
        if len(loops) != 1:
            res.bad(Finding("EC4", C_RT, fn.lineno, "BpEndecodeBaseType", str(kinds), f"the {'encode' if enc else 'decode'} path has {len(loops)} byte-reversal loops (expected one)", witness="any multi-byte integer on a big-endian host", tag="be:staging:loops"))
            continue
        lp = loops[0]
        if (enc and kinds != ["loop", "copy"]) or ((not enc) and kinds != ["copy", "loop"]):
            res.bad(Finding("EC4", C_RT, fn.lineno, "BpEndecodeBaseType", str(kinds), "staging and copying are not ordered reverse->copy (encode) / copy->reverse (decode)", tag="be:staging:order"))
        kvar = lp.node.target.id if hasattr(lp.node, "target") and hasattr(lp.node.target, "id") else "k"
        k = V(kvar)
        it = lp.args[0] if lp.args else None
        ok_loop = it == pcall("range", size)
        if not ok_loop and getattr(lp, "name", "") == "while" and lp.sub:
            # a cursor walked until it meets a bound: `while (last != src)` with last = src + size, last -= 1
            # runs (bound - init) / step times
            from .pyflow import _atoms_of as _ao

            sp0 = lp.sub[0]
            tests = [k_ for k_, t_ in sp0.guards if k_[0] == "cmp" and k_[1] == "==" and t_ is False and any(a_[0] == "var" and a_[1].endswith(lp.op) for a_ in _ao(k_[2]))]
            if len(tests) == 1:
                x_ = tests[0][2]
                cur = [a_[1] for a_ in _ao(x_) if a_[0] == "var" and a_[1].endswith(lp.op)]
                if len(cur) == 1:
                    nm_ = cur[0][: -len(lp.op)]
                    init_, end_ = lp.kw.get(nm_), sp0.env.get(nm_)
                    step_ = (end_ - V(cur[0])).const_value() if init_ is not None and end_ is not None else None
                    if step_ in (1, -1):
                        x0 = x_.subst(cur[0], init_)
                        d_ = (x_.subst(cur[0], init_ + K(step_)) - x0).const_value()
                        if d_ in (1, -1):
                            n_iter = x0.scale(-d_)  # x0 + n * d == 0
                            ok_loop = n_iter == size
                            if not ok_loop:
                                it = pcall("range", n_iter)

        def address(base: Any, idx: Any, body: Any) -> Optional[Any]:
            """byte address `base + idx` as a function of the iteration number k:
            loop-carried cursors (p@Ln) are replaced by init + k * step"""
            from .fold import replace_atoms
            from .pyflow import _atoms_of

            if isinstance(base, str):
                base = V(base)
            out = base + idx
            for a in _atoms_of(out):
                if a[0] == "var" and a[1].endswith(lp.op):
                    nm = a[1][: -len(lp.op)]
                    init, end = lp.kw.get(nm), body.env.get(nm)
                    if init is None or end is None:
                        return None
                    step = (end - V(a[1])).const_value()
                    if step is None:
                        return None
                    out = out.subst(a[1], init + k.scale(step))
            return out

        want_native = V(pdata) + size - k - K(1)
        ok_body = True
        for sp in lp.sub or []:
            sts = [e for e in sp.effects if e.kind == "store"]
            if len(sts) != 1:
                ok_body = False
                continue
            s_ = sts[0]
            idx, val = s_.args
            va = single_atom(val)
            if va is None or va[0] != "load" or s_.op != "=":
                ok_body = False
                continue
            dst_addr = address(s_.recv, idx, sp) if s_.recv is not None else None
            src_addr = address(va[1], va[2], sp)
            stage_k = stage + k
            # the reversal is the same permutation whichever side counts upwards
            native_up = V(pdata) + k
            stage_down = stage + size - k - K(1)
            if enc:
                ok_body = ok_body and ((dst_addr == stage_k and src_addr == want_native) or (dst_addr == stage_down and src_addr == native_up))
            else:
                ok_body = ok_body and ((dst_addr == want_native and src_addr == stage_k) or (dst_addr == native_up and src_addr == stage_down))
        if not ok_loop:
            a_ = single_atom(it) if it is not None else None
            if a_ is not None and a_[0] == "call" and a_[1] == "range":
                res.bad(Finding("EC4", C_RT, fn.lineno, "BpEndecodeBaseType", show(it), f"big-endian staging reverses `{show(a_[2][0])}` bytes, not BpBaseTypeStorageSize(nbits)", witness="uint12 in a uint16_t: the wrong bytes are reversed", tag="be:staging:size"))
            else:
                res.unsure(f"EC4: reversal loop iterates `{show(it) if it is not None else None}`")
        elif not ok_body:
            res.bad(Finding("EC4", C_RT, fn.lineno, "BpEndecodeBaseType", str([repr(e) for sp in lp.sub or [] for e in sp.effects]), "staging does not reverse exactly `size` bytes: native -> little-endian before the copy on encode, little-endian -> native after the copy on decode", witness="any multi-byte integer on a big-endian host", tag="be:staging:loops"))
    res.inst(part="staging", paths=summary)
    return res


# --------------------------------------------------------------------------
# CJ JSON structure of the C runtime
# --------------------------------------------------------------------------


@rule("CJ", "C JSON formatter: braces/brackets, key:value, separator iff another item follows, bool words, byte as number")
def cj(repo: Repo) -> RuleResult:
    """The JSON formatters are summarised by the path engine.  For the two
    containers the loop body is specialised to small concrete (index, count)
    pairs and the token stream it would emit - item and separator tokens - is
    compared with  item ("," item)*  between one opener and one closer, so it
    does not matter whether the separator is written before or after an item."""
    from .flows import c_runtime
    from .fold import by_name, lit_value
    from .normal import show
    from .pyflow import single_atom, str_of

    res = RuleResult("CJ", floor=5)
    try:
        L = c_runtime(repo, False)
    except Inconclusive as e:
        res.unsure(f"CJ: {e}")
        return res

    def lit(e: Any, i: int = 1) -> Optional[str]:
        if len(e.args) <= i:
            return None
        s_ = str_of(e.args[i])
        if s_ is None:
            return None
        return s_[1:-1] if len(s_) >= 2 and s_[0] == s_[-1] == '"' else s_

    prims = ("BpJsonFormatString", "BpJsonFormatMessageField", "BpJsonFormatBaseType")
    for fname, opener, closer in (("BpJsonFormatMessage", "{", "}"), ("BpJsonFormatArray", "[", "]")):
        try:
            fn = L.func(fname)
            paths = [p_ for p_ in L.flow(None, names={}, primitives=prims, havoc_on=()).run(fn) if p_.done == "return"]
        except Inconclusive as e:
            res.unsure(f"CJ: {fname}: {e}")
            continue
        for p_ in paths:
            top = [e for e in p_.effects if e.kind in ("call", "loop")]
            strs = [(i, lit(e)) for i, e in enumerate(top) if e.kind == "call" and e.name == "BpJsonFormatString"]
            loops = [(i, e) for i, e in enumerate(top) if e.kind == "loop"]
            res.inst(function=fname, top=[(s_ if s_ is not None else "?") for _, s_ in strs], loops=len(loops))
            if [s_ for _, s_ in strs] != [opener, closer] or len(loops) != 1 or not (strs[0][0] < loops[0][0] < strs[1][0]):
                res.bad(Finding("CJ", C_RT, fn.lineno, fname, str([s_ for _, s_ in strs]), f"output is not wrapped in \"{opener}\" ... \"{closer}\" exactly once around the items", witness="invalid JSON", tag=f"{fname}:wrap"))
                continue
            lp = loops[0][1]
            it = single_atom(lp.args[0]) if lp.args else None
            if it is None or it[0] != "call" or it[1] != "range" or len(it[2]) != 1:
                res.unsure(f"CJ: {fname}: items are iterated by `{show(lp.args[0]) if lp.args else None}`")
                continue
            count = show(it[2][0])
            want_count = "descriptor.nfields" if fname == "BpJsonFormatMessage" else "descriptor.cap"
            if count != want_count:
                res.bad(Finding("CJ", C_RT, fn.lineno, fname, count, f"items are not formatted for k = 0..{want_count}-1 (the loop runs to `{count}`)", tag=f"{fname}:loop"))
                continue
            kvar = lp.node.target.id if hasattr(lp.node, "target") and hasattr(lp.node.target, "id") else "k"
            # group the body paths by what does not depend on (k, count)
            groups: Dict[Tuple[str, ...], List[Any]] = {}
            for sp in lp.sub or []:
                other = tuple(g for (k_, t_), g in zip(sp.guards, sp.guard_text()) if lit_value(k_, t_, by_name({kvar: 0, count: 1})) is None)
                groups.setdefault(other, []).append(sp)
            for other, sps in groups.items():
                item_calls = {e.name for sp in sps for e in sp.effects if e.kind == "call" and not (e.name == "BpJsonFormatString" and lit(e) == ",")}
                if not item_calls:
                    continue  # a type flag with no formatter (unreachable flags): CA2 judges flag coverage
                bad_stream = None
                for n_ in (1, 2, 3):
                    stream: List[str] = []
                    for k_i in range(n_):
                        repl = by_name({kvar: k_i, count: n_})
                        feas = [sp for sp in sps if all(lit_value(k_, t_, repl) is not False for k_, t_ in sp.guards)]
                        if len(feas) != 1:
                            bad_stream = f"{len(feas)} paths for k={k_i}, count={n_}"
                            break
                        for e in feas[0].effects:
                            if e.kind != "call":
                                continue
                            if e.name == "BpJsonFormatString":
                                stream.append(lit(e) if lit(e) is not None else "?")
                            else:
                                stream.append("item")
                    if bad_stream:
                        break
                    want_stream = ["item"] + [",", "item"] * (n_ - 1)
                    if stream != want_stream:
                        bad_stream = f"{n_} item(s) give the token stream {stream}"
                        break
                if bad_stream:
                    res.bad(Finding("CJ", C_RT, fn.lineno, fname, bad_stream, f"the separator is not emitted exactly between consecutive items ({bad_stream}{'; under ' + ' and '.join(other) if other else ''})", witness="trailing / missing comma: invalid JSON", tag=f"{fname}:comma"))
                    break
            # field k is formatted from descriptor k
            if fname == "BpJsonFormatMessage":
                for sp in lp.sub or []:
                    for e in sp.effects:
                        if e.kind == "call" and e.name == "BpJsonFormatMessageField" and show(e.args[0]) not in (f"descriptor.field_descriptors[{kvar}]", f"descriptor.field_descriptors + {kvar}", f"{kvar} + descriptor.field_descriptors"):
                            res.bad(Finding("CJ", C_RT, fn.lineno, fname, show(e.args[0]), "field k is not formatted from field_descriptors[k]", tag=f"{fname}:item"))
    # key before value
    try:
        fn = L.func("BpJsonFormatMessageField")
        ok = True
        seen = []
        for p_ in L.flow(None, names={}, primitives=prims, havoc_on=()).run(fn):
            cs = [e for e in p_.effects if e.kind == "call"]
            seen.append([e.name for e in cs])
            if len(cs) < 2:
                continue  # flag without formatter
            k0 = cs[0]
            if not (k0.name == "BpJsonFormatString" and lit(k0) == '\\"%s\\":' and len(k0.args) > 2 and show(k0.args[2]) == "descriptor.name"):
                ok = False
        res.inst(function="BpJsonFormatMessageField", calls=seen)
        if not ok:
            res.bad(Finding("CJ", C_RT, fn.lineno, "BpJsonFormatMessageField", str(seen), "the key is not emitted as \"<field name>\": before the value", witness="keys missing / unquoted", tag="field:key"))
    except Inconclusive as e:
        res.unsure(f"CJ: {e}")
    # bool words and byte as number
    try:
        fn = L.func("BpJsonFormatBaseType")
        params = [a.arg for a in fn.args.args]
        flags = get_macros(repo).type_flags()
        paths = L.flow(None, names={}, primitives=("BpJsonFormatString",), havoc_on=()).run(fn)
        for kind, flag in (("bool", flags["BP_TYPE_BOOL"]), ("byte", flags["BP_TYPE_BYTE"])):
            repl = by_name({params[0]: flag, params[1]: 8 if kind == "byte" else 1})
            feas = [p_ for p_ in paths if all(lit_value(k_, t_, repl) is not False for k_, t_ in p_.guards)]
            texts = []
            okk = bool(feas)
            for p_ in feas:
                cs = [e for e in p_.effects if e.kind == "call" and e.name == "BpJsonFormatString"]
                if len(cs) != 1:
                    okk = False
                    continue
                e = cs[0]
                texts.append((lit(e), show(e.args[2]) if len(e.args) > 2 else None, [g for g in p_.guard_text() if "[0]" in g]))
                if kind == "bool":
                    val = str_of(e.args[2]) if len(e.args) > 2 else None
                    tests = [(k_, t_) for k_, t_ in p_.guards if k_[0] == "truthy" and "(bool*)" in show(k_[1]).replace(" ", "")]
                    if lit(e) != "%s" or len(tests) != 1 or val not in ('"true"', '"false"') or (val == '"true"') != tests[0][1]:
                        okk = False
                else:
                    if lit(e) != "%u" or len(e.args) < 3 or show(e.args[2]) not in (f"{params[3]}[0]", f"(uint8_t*){params[3]}[0]"):
                        okk = False
            res.inst(function=fn.name, case=kind, text=texts)
            if not okk:
                if kind == "bool":
                    res.bad(Finding("CJ", C_RT, fn.lineno, fn.name, str(texts), "booleans are not printed as true / false (in that polarity) from the bool storage", witness="true prints as false / as 1", tag="base:bool"))
                else:
                    res.bad(Finding("CJ", C_RT, fn.lineno, fn.name, str(texts), "bytes are not printed as unsigned numbers", tag="base:byte"))
    except Inconclusive as e:
        res.unsure(f"CJ: {e}")
    c = get_c(repo, False)
    f = c.func("BpJsonFormatString")
    t = " ; ".join(go_src(s.rhs[0]) if s.k == "assign" else (go_src(s.x) if s.k == "exprstmt" else s.k) for s in f.body.stmts)
    res.inst(function=f.name, body=t)
    adv = [s for s in f.body.stmts if s.k == "assign" and go_src(s.lhs[0]) == "ctx.n"]
    if not (len(adv) == 1 and adv[0].op == "+=" and "vsprintf" in go_src(adv[0].rhs[0]) and "ctx.s[ctx.n]" in go_src(adv[0].rhs[0])):
        res.bad(Finding("CJ", C_RT, f.line, f.name, t, "output is not appended at s[n] with n advanced by what vsprintf wrote", witness="pieces overwrite each other", tag="string:append"))
    return res


# --------------------------------------------------------------------------
# CC4 generator templates <-> constructor macros <-> struct field order
# --------------------------------------------------------------------------


@rule("CC4", "C: format_bp_* templates pass arguments in the order the constructor macros take them, and the macros initialise struct fields in declaration order")
def cc4(repo: Repo) -> RuleResult:
    import ast as pyast

    from .pymodel import get_model
    from .rules_f import ROLE_EQUIV, ctor_calls_in_templates, local_value, role_of

    res = RuleResult("CC4", floor=12)
    mac = get_macros(repo)
    try:
        c = get_c(repo, False)
    except Inconclusive as e:
        res.unsure(f"CC4: {e}")
        return res
    # (a) macro initialiser order == struct field order, each element the like-named parameter
    expect_fixed = {"BpBool": {"nbits": "1", "size": "sizeof(bool)"}, "BpByte": {"nbits": "8", "size": "sizeof(unsigned char)"}}
    for mname in ("BpBool", "BpUint", "BpInt", "BpByte", "BpMessage", "BpEnum", "BpArray", "BpAlias", "BpMessageDescriptor", "BpMessageFieldDescriptor", "BpArrayDescriptor", "BpAliasDescriptor", "BpProcessorContext", "BpJsonFormatContext"):
        try:
            params, sname, elems = mac.initializer(mname)
        except Inconclusive as e:
            res.unsure(f"CC4: {e}")
            continue
        fields = [n for n, _ in c.structs.get(sname, [])]
        res.inst(part="macro", macro=mname, params=params, struct=sname, fields=fields, elements=elems)
        if len(elems) != len(fields):
            res.bad(Finding("CC4", "lib/c/bitproto.h", 0, mname, str(elems), f"the macro initialises {len(elems)} members, struct {sname} has {fields}", tag=f"{mname}:arity"))
            continue
        alias = {"formatter": "json_formatter"}
        for k, (e, fld) in enumerate(zip(elems, fields)):
            if e in params:
                if alias.get(e, e) != fld:
                    res.bad(Finding("CC4", "lib/c/bitproto.h", 0, mname, f"{{{', '.join(elems)}}}", f"member {k + 1} of struct {sname} is `{fld}` but the macro puts its parameter `{e}` there", witness="nbits and size (or extensible / nfields) swapped for every generated descriptor", tag=f"{mname}:{k}"))
            else:
                fixed = expect_fixed.get(mname, {})
                if fld in fixed and e.replace(" ", "") != fixed[fld].replace(" ", ""):
                    res.bad(Finding("CC4", "lib/c/bitproto.h", 0, mname, e, f"member `{fld}` is initialised with `{e}`, expected `{fixed[fld]}`", tag=f"{mname}:{fld}:fixed"))
                if fld == "i" and e != "0" or fld == "n" and e != "0":
                    res.bad(Finding("CC4", "lib/c/bitproto.h", 0, mname, e, f"cursor member `{fld}` does not start at 0", tag=f"{mname}:{fld}:zero"))
                if fld == "to_flag" and mname != "BpAlias" and e != "0":
                    res.bad(Finding("CC4", "lib/c/bitproto.h", 0, mname, e, "to_flag must be 0 for non-alias types", tag=f"{mname}:to_flag"))
                if fld in ("processor", "json_formatter") and e != "NULL":
                    res.bad(Finding("CC4", "lib/c/bitproto.h", 0, mname, e, f"`{fld}` of a base type must be NULL", tag=f"{mname}:{fld}:null"))
    # (b) generator templates against macro parameter lists: the text every path of the
    # formatter method returns, holes replaced by where their values come from
    import re as _re

    from .emit import class_emissions, formatter_returns
    from .rules_f import ctor_calls_in_text

    m = get_model(repo)
    SIZE_OF = {
        "format_bp_int": ("self.format_int_type(t)", "self.format_type(t)"),
        "format_bp_uint": ("self.format_uint_type(t)", "self.format_type(t)"),
        "format_bp_message": ("self.format_message_type(t)", "self.format_type(t)"),
        "format_bp_enum": ("self.format_enum_type(t)", "self.format_type(t)"),
        "format_bp_alias": ("self.format_alias_type(t)", "self.format_type(t)"),
    }
    KIND = {"format_bp_message": "message", "format_bp_array": "array", "format_bp_alias": "alias"}
    sites = [
        ("format_bp_int", "BpInt"), ("format_bp_uint", "BpUint"), ("format_bp_message", "BpMessage"),
        ("format_bp_enum", "BpEnum"), ("format_bp_array", "BpArray"), ("format_bp_alias", "BpAlias"),
        ("format_bp_message_descriptor", "BpMessageDescriptor"), ("format_bp_array_descriptor", "BpArrayDescriptor"), ("format_bp_alias_descriptor", "BpAliasDescriptor"),
    ]

    def c_role(meth: str, a: str) -> Tuple[str, Optional[str]]:
        """(role, defect) of one argument text"""
        r = role_of(a)
        if r is not None:
            return r, None
        # a quantity of the same node, but not the plain one: format_int_value(t.nbits() - ...)
        mm = _re.fullmatch(r"self\.format_int_value\((.*)\)", a)

        def _one_call(inner: str) -> bool:
            d_ = 0
            for ch in inner:
                d_ += {"(": 1, ")": -1}.get(ch, 0)
                if d_ < 0:
                    return False
            return d_ == 0

        if mm and _one_call(mm.group(1)):
            for q_, role_ in (("t.nbits()", "nbits"), ("t.nfields()", "nfields"), ("t.cap", "capacity")):
                if q_ in mm.group(1) and mm.group(1) != q_:
                    return role_, f"the {role_} argument is `{mm.group(1)}`, not `{q_}`: the runtime reads it as the item's own {role_} (for an extensible item nbits includes the 16-bit prefix and is what the prefix carries)"
        mm = _re.fullmatch(r"self\.format_sizeof\((.*)\)", a)
        if mm:
            if meth in SIZE_OF and mm.group(1) not in SIZE_OF[meth]:
                return "size", f"the storage size is sizeof({mm.group(1)}), not sizeof(the C type of the same node)"
            return "size", None
        if " * " in a and meth == "format_bp_array":
            parts = sorted(x.strip() for x in a.split(" * "))
            want = sorted(["self.format_int_value(t.cap)", "self.format_sizeof(self.format_type(t.element_type))"])
            if parts != want:
                return "size", f"the array's storage size is `{a}`, not capacity * sizeof(element type)"
            return "size", None
        mm = _re.fullmatch(r"self\.format_bp_(\w+?)_processor_name\((t|t, d)\)", a)
        if mm:
            return "processor", None if KIND.get(meth) == mm.group(1) else f"the processor named is the one of a {mm.group(1)}"
        mm = _re.fullmatch(r"self\.format_bp_(\w+?)_json_formatter_name\((t|t, d)\)", a)
        if mm:
            return "formatter", None if KIND.get(meth) == mm.group(1) else f"the JSON formatter named is the one of a {mm.group(1)}"
        if a == "self.format_bp_type_flag(t.type)":
            return "to_flag", None
        if a == "self.format_bp_type(t.type, t)":
            return "to", None
        if a == "field_descriptors":
            return "field_descriptors", None
        return f"?{a}", None

    for meth, mname in sites:
        qual = f"CFormatter.{meth}"
        try:
            fi = m.func("impls/c/formatter.py", qual)
            params, sname, elems = mac.initializer(mname)
            texts = formatter_returns(repo, "impls/c/formatter.py", "CFormatter", meth)
        except Inconclusive as e:
            res.unsure(f"CC4: {e}")
            continue
        per_text = [[x for x in ctor_calls_in_text(t_, "") if x[0] == mname] for t_ in texts]
        if not texts or any(len(c_) != 1 for c_ in per_text):
            res.unsure(f"CC4: {qual}: `{mname}(...)` is not the text returned ({texts})")
            continue
        for cs in per_text:
            args = cs[0][1]
            judged = [c_role(meth, a) for a in args]
            roles = [r for r, _ in judged]
            res.inst(part="template", site=qual, macro=mname, roles=roles, macro_params=params)
            if len(roles) != len(params):
                res.bad(Finding("CC4", fi.rel, fi.node.lineno, qual, f"{mname}({', '.join(args)})", f"the template passes {len(roles)} arguments, the macro takes {params}", tag=f"{qual}:arity"))
                continue
            for k, ((r, defect), pn) in enumerate(zip(judged, params)):
                if r.startswith("?"):
                    res.unsure(f"CC4: {qual}: argument {k} (`{args[k]}`) has no recognised provenance")
                    break
                if pn not in ROLE_EQUIV.get(r, {r}):
                    res.bad(Finding("CC4", fi.rel, fi.node.lineno, qual, f"{mname}({', '.join(args)})", f"argument {k + 1} carries `{r}` but macro parameter {k + 1} is `{pn}`", witness="generated descriptors carry swapped nbits / size / extensible / capacity", tag=f"{qual}:{k}"))
                elif defect:
                    res.bad(Finding("CC4", fi.rel, fi.node.lineno, qual, args[k], defect, witness="data pointers of array elements advance by a wrong stride / the 16-bit prefix carries a wrong size", tag=f"{qual}:{r}"))
    # the generated functions hand their work to the runtime on every path: a call of BpEndecode* / BpJsonFormat* /
    # a generated processor that some path of the emitting method leaves out is a definition whose bits are not
    # processed (an empty extensible message still has its 16-bit prefix)
    try:
        import re as _re

        from .emit import block_flow, pushed
        from .normal import V as _Vd

        DELEG = _re.compile(r"\bBp(Endecode|JsonFormat)\w*\(|\(\(void \*\)m, &ctx\)")
        n_deleg = 0
        for relsfx_ in ("impls/c/renderer_c.py",):
            mod_ = m.mod(relsfx_)
            for ci in mod_.classes.values():
                for meth in ("render", "before", "after"):
                    fi_d = m.lookup(ci, meth)
                    if fi_d is None or fi_d.cls is None or not fi_d.cls.rel.endswith(relsfx_):
                        continue
                    try:
                        flow_d = block_flow(repo, ci.name, relsfx_, "CFormatter", "impls/c/formatter.py", {}, keep=tuple(sorted({n_ for k_ in m.mro(m.cls("CFormatter", "impls/c/formatter.py")) for n_ in k_.methods if n_.startswith("format_")})))
                        paths_d = [p_ for p_ in flow_d.run(fi_d.node, {"self": _Vd("self")}) if p_.done != "raise"]
                    except Inconclusive:
                        continue
                    per_path = [[t_ for _i, t_ in pushed(p_) if DELEG.search(t_)] for p_ in paths_d]
                    if not any(per_path):
                        continue
                    n_deleg += 1
                    res.inst(part="delegation", site=f"{ci.name}.{meth}", calls=sorted({t_ for x_ in per_path for t_ in x_})[:2], paths=len(paths_d))
                    missing = [p_ for p_, x_ in zip(paths_d, per_path) if not x_]
                    if missing:
                        res.bad(Finding("CC4", fi_d.rel, fi_d.node.lineno, f"{ci.name}.{meth}", sorted({t_ for x_ in per_path for t_ in x_})[0], f"the call into the runtime is left out on the path under {missing[0].guard_text()}: the generated function does nothing for such a definition although its bits (the 16-bit prefix of an extensible message, the processors of its fields) are part of the layout", witness="message Reserved' {} as a field of another message", tag=f"{ci.name}.{meth}:conditional-delegation"))
                    # a wrapper that returns no wrapped block on some path emits the frame without the descriptors
                    if meth == "after":
                        wr_ = m.lookup(ci, "wraps")
                        if wr_ is not None and wr_.cls is not None and wr_.cls.rel.endswith(relsfx_):
                            try:
                                wp_ = [p_ for p_ in flow_d.run(wr_.node, {"self": _Vd("self")}) if p_.done == "return"]
                                from .pyflow import single_atom as _sad

                                none_ = [p_ for p_ in wp_ if p_.ret is None or (_sad(p_.ret) is not None and _sad(p_.ret)[0] == "none")]
                                if none_ and wp_:
                                    res.bad(Finding("CC4", wr_.rel, wr_.node.lineno, f"{ci.name}.wraps", "", f"wraps() returns no block on the path under {none_[0].guard_text()}: the function is emitted without the descriptor it hands to the runtime", witness="message Reserved' {} as a field of another message", tag=f"{ci.name}.wraps:none"))
                            except Inconclusive:
                                pass
        if n_deleg < 4:
            res.unsure(f"CC4: only {n_deleg} generated functions delegating to the runtime were found (6 confirmed by hand)")
    except Inconclusive as e:
        res.unsure(f"CC4: delegation: {e}")
    # field descriptor item: fds[index of the item] = BpMessageFieldDescriptor((void *)&(m->field), bp type of the same field, name of the same field)
    fi = m.func("impls/c/renderer_c.py", "BlockMessageProcessorFieldItem.render")
    res.inst(part="template", site=fi.qual, what="BpMessageFieldDescriptor(data, type, name)")
    try:
        params, sname, elems = mac.initializer("BpMessageFieldDescriptor")
        em = class_emissions(repo, "impls/c/renderer_c.py", named="plain").get("BlockMessageProcessorFieldItem")
        if not em:
            raise Inconclusive("BlockMessageProcessorFieldItem.render: emission not computable")
        text = " ".join(em)
        cs = ctor_calls_in_text(text, "")
        cs = [c_ for c_ in cs if c_[0] == "BpMessageFieldDescriptor"]
        mm = _re.search(r"fds\[(.+?)\]\s*=\s*BpMessageFieldDescriptor\(", text)
        if len(cs) != 1 or mm is None:
            res.unsure(f"CC4: BlockMessageProcessorFieldItem.render: descriptor pieces not recognised in `{text}`")
        else:
            got = []
            for a_ in cs[0][1]:
                if _re.fullmatch(r"\(void \*\)&\(m->(self\.message_field_name|self\.formatter\.format_message_field_name\(self\.d\))\)", a_):
                    got.append("data")
                elif a_ == "self.formatter.format_bp_type(self.d.type, self.d)":
                    got.append("type")
                elif a_ == "self.formatter.format_str_value(self.d.name)":
                    got.append("name")
                else:
                    got.append(f"?{a_}")
            if any(g_.startswith("?") for g_ in got):
                res.bad(Finding("CC4", fi.rel, fi.node.lineno, fi.qual, text, "the k-th descriptor slot is not filled with type and name of the same field", witness="field names / types shifted by one in JSON and encoding", tag="field-descriptor:provenance"))
            elif got != params:
                res.bad(Finding("CC4", fi.rel, fi.node.lineno, fi.qual, str(got), f"the field descriptor is emitted as {got}, the macro takes {params}", tag="field-descriptor:order"))
            if mm.group(1) != "self.formatter.format_int_value(self.i)":
                res.bad(Finding("CC4", fi.rel, fi.node.lineno, fi.qual, mm.group(1), "the descriptor is not stored at the item's own index", witness="field names / types shifted by one in JSON and encoding", tag="field-descriptor:provenance"))
    except Inconclusive as e:
        res.unsure(f"CC4: {e}")
    return res
