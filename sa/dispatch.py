"""
Class-directed path enumeration of a Python function.

`outcomes(m, mod, fn, subject, cls)` abstractly executes the function body for
a receiver/argument `subject` whose concrete class is `cls`.  isinstance tests
on the subject are decided from the class table; every other test forks.  The
result is the list of exits (return / raise / fall-through) that are reachable
for this class, each with the local environment (name -> last assigned
expression on that path) and the undecided tests taken on the way.

Understood statement kinds: if/elif/else, return, raise, simple assignment,
`for a, b in <literal table>` (unrolled), expression statements.  Anything
else on a reachable path (while, try, with, match, augmented assignment to a
name the caller cares about) raises Inconclusive: the caller reports the site
as not understood instead of guessing.
"""

from __future__ import annotations

import ast
from typing import Any, Dict, List, Optional, Tuple

from .core import Inconclusive, src_of
from .pymodel import ClassInfo, Model, ModInfo

Env = Dict[str, ast.AST]


class Outcome:
    def __init__(self, kind: str, node: Optional[ast.AST], env: Env, forks: List[Tuple[ast.AST, bool]]) -> None:
        self.kind = kind  # "return" | "raise" | "fall"
        self.node = node
        self.env = env
        self.forks = forks

    def value_src(self) -> str:
        if self.kind == "return" and isinstance(self.node, ast.Return) and self.node.value is not None:
            return src_of(self.node.value)
        return ""

    def __repr__(self) -> str:
        return f"<{self.kind} {self.value_src()!r} forks={[(src_of(t), v) for t, v in self.forks]}>"


def _classes_of(m: Model, mod: ModInfo, arg: ast.AST, env: Env) -> Optional[List[ClassInfo]]:
    if isinstance(arg, ast.Name) and arg.id in env:
        return _classes_of(m, mod, env[arg.id], env)
    if isinstance(arg, ast.Tuple):
        out: List[ClassInfo] = []
        for e in arg.elts:
            r = _classes_of(m, mod, e, env)
            if r is None:
                return None
            out.extend(r)
        return out
    r = m.resolve_expr_static(mod, arg)
    if isinstance(r, ClassInfo):
        return [r]
    return None


def decide(m: Model, mod: ModInfo, test: ast.AST, subject: str, cls: ClassInfo, env: Env) -> Optional[bool]:
    if isinstance(test, ast.UnaryOp) and isinstance(test.op, ast.Not):
        v = decide(m, mod, test.operand, subject, cls, env)
        return None if v is None else (not v)
    if isinstance(test, ast.BoolOp):
        vals = [decide(m, mod, v, subject, cls, env) for v in test.values]
        if isinstance(test.op, ast.And):
            if any(v is False for v in vals):
                return False
            return True if all(v is True for v in vals) else None
        if any(v is True for v in vals):
            return True
        return False if all(v is False for v in vals) else None
    if isinstance(test, ast.Call) and isinstance(test.func, ast.Name) and test.func.id == "isinstance" and len(test.args) == 2:
        subj = test.args[0]
        s = src_of(subj)
        if isinstance(subj, ast.Name) and subj.id in env and src_of(env[subj.id]) == subject:
            s = subject
        if s != subject:
            return None
        cs = _classes_of(m, mod, test.args[1], env)
        if cs is None:
            return None
        return any(m.is_subclass(cls, c) for c in cs)
    if isinstance(test, ast.Compare) and len(test.ops) == 1 and isinstance(test.ops[0], (ast.Is, ast.IsNot, ast.Eq, ast.NotEq)):
        # type(subject) is C
        l, r = test.left, test.comparators[0]
        if isinstance(l, ast.Call) and isinstance(l.func, ast.Name) and l.func.id == "type" and len(l.args) == 1 and src_of(l.args[0]) == subject:
            cs = _classes_of(m, mod, r, env)
            if cs and len(cs) == 1:
                eq = cs[0] is cls
                return eq if isinstance(test.ops[0], (ast.Is, ast.Eq)) else (not eq)
    if isinstance(test, ast.Constant):
        return bool(test.value)
    return None


def _literal_table(m: Model, mod: ModInfo, fn_cls: Optional[ClassInfo], e: ast.AST, env: Env) -> Optional[List[ast.AST]]:
    if isinstance(e, ast.Name) and e.id in env:
        return _literal_table(m, mod, fn_cls, env[e.id], env)
    if isinstance(e, (ast.Tuple, ast.List)):
        return list(e.elts)
    name = None
    if isinstance(e, ast.Name):
        name = e.id
        body = mod.tree.body
    elif isinstance(e, ast.Attribute) and isinstance(e.value, ast.Name) and e.value.id in ("self", "cls") and fn_cls is not None:
        name = e.attr
        body = fn_cls.node.body
    else:
        return None
    for st in body:
        tgt = None
        if isinstance(st, ast.Assign) and len(st.targets) == 1 and isinstance(st.targets[0], ast.Name):
            tgt, val = st.targets[0].id, st.value
        elif isinstance(st, ast.AnnAssign) and isinstance(st.target, ast.Name) and st.value is not None:
            tgt, val = st.target.id, st.value
        if tgt == name and isinstance(val, (ast.Tuple, ast.List)):
            return list(val.elts)
    return None


def outcomes(m: Model, mod: ModInfo, fn: ast.FunctionDef, subject: str, cls: ClassInfo, fn_cls: Optional[ClassInfo] = None, max_paths: int = 256) -> List[Outcome]:
    def run(stmts: List[ast.stmt], state: List[Outcome]) -> List[Outcome]:
        for st in stmts:
            new: List[Outcome] = []
            for o in state:
                if o.kind != "fall":
                    new.append(o)
                else:
                    new.extend(step(st, o))
            state = new
            if len(state) > max_paths:
                raise Inconclusive(f"{fn.name}: more than {max_paths} paths")
        return state

    def step(st: ast.stmt, o: Outcome) -> List[Outcome]:
        env, forks = o.env, o.forks
        if isinstance(st, ast.Return):
            return [Outcome("return", st, env, forks)]
        if isinstance(st, ast.Raise):
            return [Outcome("raise", st, env, forks)]
        if isinstance(st, ast.If):
            v = decide(m, mod, st.test, subject, cls, env)
            outs: List[Outcome] = []
            if v is not False:
                outs.extend(run(st.body, [Outcome("fall", None, env, forks + ([(st.test, True)] if v is None else []))]))
            if v is not True:
                outs.extend(run(st.orelse, [Outcome("fall", None, env, forks + ([(st.test, False)] if v is None else []))]))
            return outs
        if isinstance(st, ast.Assign) and len(st.targets) == 1 and isinstance(st.targets[0], ast.Name):
            e2 = dict(env)
            e2[st.targets[0].id] = st.value
            return [Outcome("fall", None, e2, forks)]
        if isinstance(st, ast.AnnAssign) and isinstance(st.target, ast.Name):
            e2 = dict(env)
            if st.value is not None:
                e2[st.target.id] = st.value
            return [Outcome("fall", None, e2, forks)]
        if isinstance(st, ast.Assign):
            # tuple unpacking etc.: forget the bound names
            e2 = dict(env)
            for t in st.targets:
                for n in ast.walk(t):
                    if isinstance(n, ast.Name):
                        e2.pop(n.id, None)
            return [Outcome("fall", None, e2, forks)]
        if isinstance(st, ast.For):
            table = _literal_table(m, mod, fn_cls, st.iter, env)
            if table is None:
                raise Inconclusive(f"{fn.name}: loop over `{src_of(st.iter)}` is not a literal table")
            state = [o]
            for row in table:
                nxt: List[Outcome] = []
                for s in state:
                    if s.kind != "fall":
                        nxt.append(s)
                        continue
                    e2 = dict(s.env)
                    if isinstance(st.target, ast.Name):
                        e2[st.target.id] = row
                    elif isinstance(st.target, ast.Tuple) and isinstance(row, ast.Tuple) and len(row.elts) == len(st.target.elts) and all(isinstance(t, ast.Name) for t in st.target.elts):
                        for t, v in zip(st.target.elts, row.elts):
                            e2[t.id] = v  # type: ignore[attr-defined]
                    else:
                        raise Inconclusive(f"{fn.name}: loop target does not match table row")
                    nxt.extend(run(st.body, [Outcome("fall", None, e2, s.forks)]))
                state = nxt
            if st.orelse:
                state = run(st.orelse, state)
            return state
        if isinstance(st, (ast.Expr, ast.Pass, ast.Assert, ast.Import, ast.ImportFrom)):
            return [o]
        if isinstance(st, ast.AugAssign) and isinstance(st.target, ast.Name):
            e2 = dict(env)
            e2.pop(st.target.id, None)
            return [Outcome("fall", None, e2, forks)]
        raise Inconclusive(f"{fn.name}: statement kind {type(st).__name__} on a dispatch path")

    body = list(fn.body)
    if body and isinstance(body[0], ast.Expr) and isinstance(body[0].value, ast.Constant) and isinstance(body[0].value.value, str):
        body = body[1:]
    return run(body, [Outcome("fall", None, {}, [])])


def resolve(e: ast.AST, env: Env, depth: int = 4) -> ast.AST:
    """Substitute locals by their defining expressions (bounded)."""
    if depth == 0:
        return e

    class Sub(ast.NodeTransformer):
        def visit_Name(self, n: ast.Name) -> Any:
            if isinstance(n.ctx, ast.Load) and n.id in env and env[n.id] is not n:
                return resolve(env[n.id], {k: v for k, v in env.items() if k != n.id}, depth - 1)
            return n

    import copy

    return Sub().visit(copy.deepcopy(e))
