"""
D5 size arithmetic, C2 storage mapping (Python side), D4 sign extension
(generator sites + bp.intN), D6 accessor generators (py / go).
"""

from __future__ import annotations

import ast
from typing import Any, Dict, List, Optional, Set, Tuple

from .core import Finding, Inconclusive, Repo, RuleResult, rule, short, src_of
from .guards import facts_at
from .normal import C, Poly, V, call, div8, mod8, pow2, show
from .pymodel import get_model
from .rules_b import _fstring_shape
from .symeval import PyLower

AST_REL = "compiler/bitproto/_ast.py"
BP = "lib/py/bitprotolib/bp.py"


def _rets(fn: ast.AST) -> List[ast.Return]:
    return [n for n in ast.walk(fn) if isinstance(n, ast.Return) and n.value is not None]


def _conds(n: ast.AST, fn: ast.AST) -> Set[str]:
    return {("" if t else "not ") + src_of(e) for e, t in facts_at(n, fn)}


@rule("D5", "nbits()/nbytes() equal the specification; every size constant and allocation comes from Message.nbytes()")
def d5(repo: Repo) -> RuleResult:
    res = RuleResult("D5", floor=14)
    m = get_model(repo)

    from .emit import block_flow, emitted
    from .flows import compiler_flow
    from .fold import by_name, feasible
    from .normal import C as K, V as VV
    from .pyflow import single_atom

    def size_paths(cname: str, meth: str = "nbits"):
        c = m.cls(cname, "_ast.py")
        f = m.lookup(c, meth)
        if f is None:
            raise Inconclusive(f"{cname}.{meth} vanished")
        fl = compiler_flow(repo, cname, "_ast.py", inline=lambda n_, f_: n_ not in ("nbits", "fields", "sorted_fields", "nbytes"), pure=("nbits", "fields", "sorted_fields", "nbytes"))
        return f, [p_ for p_ in fl.run(f.node) if p_.done == "return" and p_.ret is not None]

    def simple(cname: str, want: List[str], what: str) -> None:
        try:
            f, ps = size_paths(cname)
        except Inconclusive as e:
            res.unsure(f"D5: {e}")
            return
        got = sorted({show(p_.ret) for p_ in ps})
        res.inst(part="ast", function=f"{cname}.nbits", returns=got)
        if len(got) != 1 or got[0] not in want:
            fd = Finding("D5", AST_REL, f.node.lineno, f"{cname}.nbits", str(got), f"{cname} must occupy {what}", witness=f"a message with a {cname.lower()} field has a wrong size / layout", tag=f"{cname}.nbits")
            fd.part = "ast"
            res.bad(fd)

    simple("Bool", ["1"], "1 bit")
    simple("Byte", ["8"], "8 bits")
    simple("Uint", ["self.cap"], "its declared width")
    simple("Int", ["self.cap"], "its declared width")
    simple("Enum", ["self.type.nbits()"], "the width of its uint type")
    simple("Alias", ["self.type.nbits()"], "the width of its target")

    def ext_truth(p_: Any) -> Optional[bool]:
        for k_, t_ in p_.guards:
            if k_[0] == "truthy" and show(k_[1]) == "self.extensible":
                return t_
        return None

    def sized(cname: str, body_ok, what: str, witness: str) -> None:
        try:
            f, ps = size_paths(cname)
        except Inconclusive as e:
            res.unsure(f"D5: {e}")
            return
        rets = [(ext_truth(p_), p_.ret) for p_ in ps]
        res.inst(part="ast", function=f"{cname}.nbits", returns=[(e_, show(v)) for e_, v in rets])
        ok = bool(rets)
        seen = set()
        for e_, v in rets:
            for case in ((True, False) if e_ is None else (e_,)):
                seen.add(case)
                body = v - K(16) if case else v
                if not body_ok(body):
                    ok = False
        if not ok or seen != {True, False}:
            fd = Finding("D5", AST_REL, f.node.lineno, f"{cname}.nbits", str([(e_, show(v)) for e_, v in rets]), what, witness=witness, tag=f"{cname}.nbits")
            fd.part = "ast"
            res.bad(fd)

    def array_body(v: Any) -> bool:
        return show(v) in ("self.element_type.nbits()*self.cap", "self.cap*self.element_type.nbits()")

    def message_body(v: Any) -> bool:
        a = single_atom(v)
        return a is not None and a[0] == "sumloop" and show(a[1]) == "$0.type.nbits()" and show(a[2]) in ("self.fields()", "self.sorted_fields()")

    sized("Array", array_body, "an array must occupy cap * element bits, plus the 16-bit prefix exactly when extensible", "byte[3]' x = 1; uint8 y = 2 : buffer length and prefix disagree with the runtimes")
    sized("Message", message_body, "a message must occupy the sum of its fields' bits, plus the 16-bit prefix exactly when extensible", "message M' { uint3 a = 1 }")

    # nbytes = ceil(nbits / 8), folded over bit sizes
    try:
        f, ps = size_paths("Type", "nbytes")
        wrong = None
        for n_ in list(range(0, 130)) + [65535, 65536]:
            okp, unfolded = feasible(ps, by_name({}, {"nbits": n_}))
            vals = set()
            for p_ in okp:
                from .fold import replace_atoms

                vals.add(replace_atoms(p_.ret, by_name({}, {"nbits": n_})).const_value())
            if unfolded or len(vals) != 1 or None in vals:
                wrong = ("unknown", n_, sorted(map(str, vals)))
                break
            v_ = vals.pop()
            if v_ != (n_ + 7) // 8:
                wrong = ("value", n_, v_)
                break
        res.inst(part="ast", function="Type.nbytes", folded=132, wrong=wrong)
        if wrong is not None and wrong[0] == "value":
            fd = Finding("D5", AST_REL, f.node.lineno, "Type.nbytes", f"nbits={wrong[1]} -> {wrong[2]}", f"nbytes() is not ceil(nbits / 8): {wrong[1]} bits give {wrong[2]} bytes", witness="a 16-bit message gets 3 bytes / a 17-bit message gets 2 bytes", tag="Type.nbytes")
            fd.part = "ast"
            res.bad(fd)
        elif wrong is not None:
            res.unsure(f"D5: Type.nbytes does not fold to one constant for nbits = {wrong[1]} ({wrong[2]})")
    except Inconclusive as e:
        res.unsure(f"D5: {e}")

    # size holes
    def ret_is(relsfx: str, cn: str, meth: str, want: str, part: str) -> None:
        qual = f"{cn}.{meth}"
        f = m.func(relsfx, qual)
        try:
            got = _ret_shapes(repo, cn, relsfx, meth)
        except Inconclusive as e:
            res.unsure(f"D5: {qual}: {e}")
            return
        res.inst(part=part, function=qual, returns=got)
        if got != [want]:
            fd = Finding("D5", f.rel, f.node.lineno, qual, str(got), f"must be `{want[1:-1]}`", witness="the byte-length constant differs from ceil(N/8) or between languages", tag=f"{qual}:source")
            fd.part = part
            res.bad(fd)

    ret_is("renderer/block.py", "BlockBindMessage", "message_nbytes", "{self.formatter.format_int_value(self.d.nbytes())}", "common")

    FMT = {"c": ("CFormatter", "impls/c/formatter.py"), "go": ("GoFormatter", "impls/go/formatter.py"), "py": ("PyFormatter", "impls/py/formatter.py")}

    def template_has(relsfx: str, cname: str, piece: str, part: str, what: str) -> None:
        sq = lambda x: "".join(x.split())
        try:
            c = m.cls(cname, relsfx)
            fcn, frel = FMT[part]
            lines: List[str] = []
            for meth in ("render", "before", "after"):
                fn_ = m.lookup(c, meth)
                if fn_ is None or fn_.cls is None or "/impls/" not in fn_.cls.rel:
                    continue
                flow = block_flow(repo, cname, relsfx, fcn, frel, {}, keep=("format_comment", "format_docstring", "format_message_name", "format_int_value", "format_type"))
                ems, _, _ = emitted(flow, fn_.node)
                for e_ in ems:
                    lines.extend(t for _, t in e_)
        except Inconclusive as e:
            res.unsure(f"D5: {relsfx}:{cname}: {e}")
            return
        res.inst(part=part, where=cname, what=what)
        if not any(sq(piece) in sq(t) for t in lines):
            fd = Finding("D5", m.mod(relsfx).rel, c.node.lineno, cname, piece, f"{what}: template piece `{piece}` not emitted (emitted: {lines[:3]})", witness="encode allocates / declares a size that is not Message.nbytes()", tag=f"{cname}:{piece[:40]}")
            fd.part = part
            res.bad(fd)

    template_has("impls/c/renderer_h.py", "BlockMessageLengthMacro", "#define {self.message_size_constant_name} {self.message_nbytes}", "c", "C size macro")
    template_has("impls/go/renderer.py", "BlockMessageSizeConst", "const {self.message_size_constant_name} uint32 = {self.message_nbytes}", "go", "Go size constant")
    template_has("impls/go/renderer.py", "BlockMessageMethodSize", "return {self.message_nbytes}", "go", "Go Size()")
    template_has("impls/go/renderer.py", "BlockMessageMethodEncode", "ctx := bp.NewEncodeContext(int(m.Size()))", "go", "Go encode allocation")
    template_has("impls/go/renderer.py", "BlockMessageMethodEncodeOpMode", "s := make([]byte, {self.formatter.format_int_value(self.d.nbytes())})", "go", "Go -O encode allocation")
    template_has("impls/py/renderer.py", "BlockMessageSize", "{self.message_size_constant_name}: ClassVar[int] = {self.message_nbytes}", "py", "Python BYTES_LENGTH")
    template_has("impls/py/renderer.py", "BlockMessageMethodEncode", "s = bytearray(self.BYTES_LENGTH)", "py", "Python encode allocation")
    # Go runtime NewEncodeContext allocates nbytes
    try:
        from .gomodel import get_go, go_src

        g = get_go(repo)
        fn = g.func("NewEncodeContext")
        txt = go_src(fn.body.stmts[0].vals[0]) if fn.body.stmts and fn.body.stmts[0].k == "return" else ""
        # through the path engine: keyed and positional struct literals alike
        from .flows import go_runtime as _gr
        from .pyflow import new_parts as _np

        GL = _gr(repo)
        ok = False
        for p_ in GL.flow().run(GL.func("NewEncodeContext")):
            np_ = _np(p_.ret) if p_.ret is not None else None
            if np_ is not None and np_[0] == "ProcessContext":
                fs = np_[1]
                sa_ = single_atom(fs["s"]) if "s" in fs else None
                ok = fs.get("isEncode") is not None and fs["isEncode"].const_value() == 1 and fs.get("i") is not None and fs["i"].const_value() == 0 and sa_ is not None and sa_[0] == "call" and sa_[1] == "make" and len(sa_[2]) >= 2 and show(sa_[2][-1]) == [a_.arg for a_ in GL.func("NewEncodeContext").args.args][0]
        res.inst(part="go", function="NewEncodeContext", ok=ok)
        if not ok:
            fd = Finding("D5", "lib/go/bitproto.go", fn.line, "NewEncodeContext", txt, "the encode context is not {isEncode: true, i: 0, s: make([]byte, nbytes)}", tag="go:NewEncodeContext")
            fd.part = "go"
            res.bad(fd)
    except Inconclusive as e:
        res.unsure(f"D5: go: {e}")
    return res


# --------------------------------------------------------------------------
# C2 storage mapping (generator side)
# --------------------------------------------------------------------------


def storage_partition_py(repo: Repo) -> Optional[Dict[int, int]]:
    """width 1..64 -> storage bits, from Formatter.get_nbits_of_integer: the
    paths of the function are enumerated and, for each width, the path whose
    conditions fold to true (with t.nbits() = w, t.nbytes() = ceil(w / 8))
    gives the returned constant."""
    from .flows import compiler_flow
    from .fold import by_name, feasible

    m = get_model(repo)
    f = m.func("renderer/formatter.py", "Formatter.get_nbits_of_integer")
    flow = compiler_flow(repo, "Formatter", "renderer/formatter.py", pure=("nbytes", "nbits"))
    try:
        paths = flow.run(f.node)
    except Inconclusive:
        return None
    table: Dict[int, int] = {}
    for w in range(1, 65):
        ok, unfolded = feasible(paths, by_name({}, {"nbytes": (w + 7) // 8, "nbits": w}))
        if unfolded:
            return None
        vals = set()
        from .fold import replace_atoms as _ra

        repl_w = by_name({}, {"nbytes": (w + 7) // 8, "nbits": w})
        for p in ok:
            rv = _ra(p.ret, repl_w).const_value() if p.ret is not None else None
            if p.done != "return" or rv is None:
                if p.done == "raise":
                    continue
                return None
            vals.add(rv)
        if len(vals) != 1:
            return None
        table[w] = vals.pop()
    return table


def _ret_shapes(repo: Repo, cls: str, rel: str, meth: str, primitives: Tuple[str, ...] = (), pure: Tuple[str, ...] = ()) -> List[str]:
    """Shapes of the values a method returns: literal text with {holes}."""
    from .flows import compiler_flow
    from .normal import show
    from .pyflow import tpl_shape

    m = get_model(repo)
    f = m.func(rel, f"{cls}.{meth}")
    flow = compiler_flow(repo, cls, rel, primitives=primitives, pure=pure + primitives)
    out = []
    for p in flow.run(f.node):
        if p.done != "return" or p.ret is None:
            continue
        s = tpl_shape(p.ret)
        out.append(s if s is not None else "{" + show(p.ret) + "}")
    return sorted(set(out))


@rule("C2", "integer storage: the smallest of 8/16/32/64 bits covering the width, identically in every place that needs it")
def c2(repo: Repo) -> RuleResult:
    res = RuleResult("C2", floor=2)
    part = storage_partition_py(repo)
    m = get_model(repo)
    f = m.func("renderer/formatter.py", "Formatter.get_nbits_of_integer")
    if part is None:
        res.unsure("C2: Formatter.get_nbits_of_integer: the returned storage size does not fold to one constant per width 1..64")
        return res
    want = {w: (8 if w <= 8 else 16 if w <= 16 else 32 if w <= 32 else 64) for w in range(1, 65)}
    diff = [w for w in range(1, 65) if part[w] != want[w]]
    res.inst(part="generator", function=f.qual, classes=sorted(set(part.values())), mismatches=diff[:8])
    if diff:
        fd = Finding("C2", f.rel, f.node.lineno, f.qual, f"width {diff[0]} -> {part[diff[0]]} bits", f"widths {diff[:6]} are stored in {sorted({part[w] for w in diff})}-bit integers; the smallest covering standard size is expected ({want[diff[0]]} for width {diff[0]})", witness=f"uint{diff[0]} field: struct layout / sizeof / sign extension disagree with the runtime", tag="get_nbits_of_integer")
        fd.part = "generator"
        res.bad(fd)
    # users: uint/int type names per language
    for relsfx, cn, meth, want_shape in (
        ("impls/c/formatter.py", "CFormatter", "format_uint_type", "uint{self.get_nbits_of_integer(t)}_t"),
        ("impls/c/formatter.py", "CFormatter", "format_int_type", "int{self.get_nbits_of_integer(t)}_t"),
        ("impls/go/formatter.py", "GoFormatter", "format_uint_type", "uint{self.get_nbits_of_integer(t)}"),
        ("impls/go/formatter.py", "GoFormatter", "format_int_type", "int{self.get_nbits_of_integer(t)}"),
    ):
        f2 = m.func(relsfx, f"{cn}.{meth}")
        lang = "c" if "/c/" in relsfx else "go"
        try:
            got = _ret_shapes(repo, cn, relsfx, meth, primitives=("get_nbits_of_integer",))
        except Inconclusive as e:
            res.unsure(f"C2: {cn}.{meth}: {e}")
            continue
        res.inst(part=lang, function=f2.qual, returns=got)
        if got != [want_shape]:
            if all("{" in g for g in got) and all(g.startswith(want_shape.split("{")[0]) for g in got) and not any("get_nbits_of_integer" in g for g in got):
                fd = Finding("C2", f2.rel, f2.node.lineno, f2.qual, str(got), f"the {lang} integer type is not named from get_nbits_of_integer(t)", witness="uint12 field declared with a type that does not hold 12 bits / differs from the runtime's storage size", tag=f"{cn}.{meth}")
                fd.part = lang
                res.bad(fd)
            elif len(got) == 1 and "{" not in got[0]:
                fd = Finding("C2", f2.rel, f2.node.lineno, f2.qual, str(got), f"the {lang} integer type is the fixed name `{got[0]}` for every width", witness="uint12 field declared with a type that does not hold 12 bits / differs from the runtime's storage size", tag=f"{cn}.{meth}")
                fd.part = lang
                res.bad(fd)
            elif len(got) == 1 and got[0].replace("self.get_nbits_of_integer(t)", "") != want_shape.replace("self.get_nbits_of_integer(t)", ""):
                fd = Finding("C2", f2.rel, f2.node.lineno, f2.qual, str(got), f"the {lang} integer type name has the form `{got[0]}`, expected `{want_shape}`", witness="the generated code names a type that does not exist / has the wrong signedness", tag=f"{cn}.{meth}")
                fd.part = lang
                res.bad(fd)
            else:
                res.unsure(f"C2: {cn}.{meth}: returned shapes {got} not recognised")
    return res


# --------------------------------------------------------------------------
# D4 sign extension (generator sites, bp.intN)
# --------------------------------------------------------------------------

STANDARD = {8, 16, 32, 64}


def _fold_int(e: ast.AST, env: Dict[str, int]) -> Optional[int]:
    if isinstance(e, ast.Constant) and isinstance(e.value, int) and not isinstance(e.value, bool):
        return e.value
    if isinstance(e, ast.Name):
        return env.get(e.id)
    if isinstance(e, ast.UnaryOp) and isinstance(e.op, ast.USub):
        v = _fold_int(e.operand, env)
        return None if v is None else -v
    if isinstance(e, ast.BinOp):
        l, r = _fold_int(e.left, env), _fold_int(e.right, env)
        if l is None or r is None:
            return None
        try:
            return {ast.Add: lambda: l + r, ast.Sub: lambda: l - r, ast.Mult: lambda: l * r, ast.LShift: lambda: l << r, ast.Pow: lambda: l ** r if 0 <= r <= 128 else None, ast.FloorDiv: lambda: l // r}[type(e.op)]()
        except (KeyError, ZeroDivisionError, ValueError):
            return None
    return None


def _wrap_semantics(fn: ast.FunctionDef, funcs: Dict[str, ast.FunctionDef], env: Dict[str, int], depth: int = 0) -> Optional[Tuple[int, int, int]]:
    """(threshold T, a, b): the function returns arg + a for arg < T and
    arg + b for arg >= T.  Follows one level of `return helper(i, N)`."""
    params = [a.arg for a in fn.args.args]
    if not params:
        return None
    arg = params[0]
    body = [st for st in fn.body if not (isinstance(st, ast.Expr) and isinstance(st.value, ast.Constant))]
    env = dict(env)
    for st in body[:-1]:
        if isinstance(st, ast.Assign) and isinstance(st.targets[0], ast.Name):
            v = _fold_int(st.value, env)
            if v is not None:
                env[st.targets[0].id] = v
    test = then = other = None
    last = body[-1] if body else None
    if isinstance(last, ast.Return) and isinstance(last.value, ast.IfExp):
        test, then, other = last.value.test, last.value.body, last.value.orelse
    elif isinstance(last, ast.Return) and len(body) >= 2 and isinstance(body[-2], ast.If) and len(body[-2].body) == 1 and isinstance(body[-2].body[0], ast.Return) and not body[-2].orelse:
        test, then, other = body[-2].test, body[-2].body[0].value, last.value
    elif isinstance(last, ast.Return) and isinstance(last.value, ast.Call) and isinstance(last.value.func, ast.Name) and last.value.func.id in funcs and depth < 2:
        h = funcs[last.value.func.id]
        hp = [a.arg for a in h.args.args]
        if not last.value.args or src_of(last.value.args[0]) != arg:
            return None
        henv = {}
        for pn, a in list(zip(hp, last.value.args))[1:]:
            v = _fold_int(a, env)
            if v is None:
                return None
            henv[pn] = v
        return _wrap_semantics(h, funcs, henv, depth + 1)
    if test is None or not isinstance(test, ast.Compare) or len(test.ops) != 1:
        return None
    l, r, op = test.left, test.comparators[0], type(test.ops[0])
    flip = {ast.Lt: ast.Gt, ast.Gt: ast.Lt, ast.LtE: ast.GtE, ast.GtE: ast.LtE}
    if src_of(r) == arg:
        l, r, op = r, l, flip.get(op)
    if src_of(l) != arg or op is None:
        return None
    k = _fold_int(r, env)
    if k is None:
        return None

    def offset(e: ast.AST) -> Optional[int]:
        if src_of(e) == arg:
            return 0
        if isinstance(e, ast.BinOp) and isinstance(e.op, (ast.Sub, ast.Add)) and src_of(e.left) == arg:
            v = _fold_int(e.right, env)
            return None if v is None else (-v if isinstance(e.op, ast.Sub) else v)
        return None

    a, b = offset(then), offset(other)
    if a is None or b is None:
        return None
    # normalise to (T, below, from T on)
    if op is ast.Lt:
        return (k, a, b)
    if op is ast.LtE:
        return (k + 1, a, b)
    if op is ast.GtE:
        return (k, b, a)
    if op is ast.Gt:
        return (k + 1, b, a)
    return None


def _fold_pred(e: ast.AST, var: str, val: int) -> Optional[Any]:
    """Constant folding of a pure arithmetic predicate over one integer
    variable (finite split of the width domain 1..64; nothing of bitproto runs)."""
    if isinstance(e, ast.Constant) and isinstance(e.value, (int, bool)):
        return e.value
    if isinstance(e, ast.Name):
        return val if e.id == var else None
    if isinstance(e, (ast.Set, ast.Tuple, ast.List)):
        xs = [_fold_pred(x, var, val) for x in e.elts]
        return None if any(x is None for x in xs) else set(xs)
    if isinstance(e, ast.UnaryOp) and isinstance(e.op, ast.Not):
        v = _fold_pred(e.operand, var, val)
        return None if v is None else (not v)
    if isinstance(e, ast.BoolOp):
        vs = [_fold_pred(v, var, val) for v in e.values]
        if any(v is None for v in vs):
            return None
        return all(vs) if isinstance(e.op, ast.And) else any(vs)
    if isinstance(e, ast.BinOp):
        l, r = _fold_pred(e.left, var, val), _fold_pred(e.right, var, val)
        if l is None or r is None or isinstance(l, set) or isinstance(r, set):
            return None
        try:
            return {ast.Add: lambda: l + r, ast.Sub: lambda: l - r, ast.Mult: lambda: l * r, ast.Mod: lambda: l % r, ast.FloorDiv: lambda: l // r, ast.BitAnd: lambda: l & r, ast.RShift: lambda: l >> r, ast.LShift: lambda: l << r}[type(e.op)]()
        except (KeyError, ZeroDivisionError, ValueError):
            return None
    if isinstance(e, ast.Compare) and len(e.ops) == 1:
        l, r = _fold_pred(e.left, var, val), _fold_pred(e.comparators[0], var, val)
        if l is None or r is None:
            return None
        op = e.ops[0]
        try:
            if isinstance(op, ast.In):
                return l in r
            if isinstance(op, ast.NotIn):
                return l not in r
            return {ast.Eq: l == r, ast.NotEq: l != r, ast.Lt: l < r, ast.LtE: l <= r, ast.Gt: l > r, ast.GtE: l >= r}[type(op)]
        except (KeyError, TypeError):
            return None
    return None


def _skip_set(fn: ast.AST, var: str) -> Optional[Set[int]]:
    """Widths w in 1..64 for which an early `if <pred(var)>: return` fires
    (the literal-set form `var in {..}` and any foldable arithmetic predicate)."""
    out: Set[int] = set()
    found = False
    for n in ast.walk(fn):
        if isinstance(n, ast.If) and n.body and isinstance(n.body[-1], ast.Return) and var in [x.id for x in ast.walk(n.test) if isinstance(x, ast.Name)]:
            if src_of(n.test) in ("is_encode",):
                continue
            ws = set()
            for w in range(1, 65):
                v = _fold_pred(n.test, var, w)
                if v is None:
                    return None
                if v:
                    ws.add(w)
            out |= ws
            found = True
    if found:
        return out
    for n in ast.walk(fn):
        if isinstance(n, ast.If) and isinstance(n.test, ast.Compare) and len(n.test.ops) == 1 and isinstance(n.test.ops[0], ast.In) and src_of(n.test.left) == var:
            if n.body and isinstance(n.body[-1], ast.Return):
                try:
                    return set(ast.literal_eval(n.test.comparators[0]))
                except Exception:
                    return None
    return set()


@rule("D4", "sign extension: every signed width narrower than its storage is extended from bit n-1; only storage-sized widths are skipped")
def d4(repo: Repo) -> RuleResult:
    res = RuleResult("D4", floor=8)
    m = get_model(repo)
    lw = PyLower({}, names={})

    from .rules_gen import judge_hooks, judge_items

    try:
        judge_items(repo, res, "D4", ("sign",), lambda lang, kind: lang)
        judge_items(repo, res, "D4", ("set",), lambda lang, kind: lang, only_tags=("caster",), leaves=("Int",))
        judge_hooks(repo, res)
    except Inconclusive as e:
        res.unsure(f"D4: {e}")
    pl = m.func("renderer/formatter.py", "Formatter.format_op_mode_endecode_single_type")
    try:
        from .pyflow import single_atom as _sa
        from .rules_d import loop_sites

        site = [x for x in loop_sites(repo) if x["lang"] == "planner"][0]
        if "error" in site:
            raise Inconclusive(site["error"])
        hook_ok, hook_seen, why = True, False, ""
        for p in site["flow"].run(site["fn"]):
            if p.done != "return":
                continue
            effs = p.effects
            li = [i for i, e in enumerate(effs) if e.kind == "loop"]
            hk = [i for i, e in enumerate(effs) if e.kind == "call" and e.name == "post_format_op_mode_endecode_single_type"]
            if not hk:
                hook_ok, why = False, "the hook is not called"
                continue
            hook_seen = True
            h = effs[hk[0]]
            if [show(a) for a in h.args] != ["t", "chain", "is_encode"]:
                hook_ok, why = False, f"the hook is called with ({', '.join(show(a) for a in h.args)})"
                continue
            if li and hk[0] < li[-1]:
                hook_ok, why = False, "the hook runs before the chunk loop"
                continue
            # its result must reach the returned list: extend / += / concatenation
            hv = ("mcall", "post_format_op_mode_endecode_single_type")
            used = False
            for e in effs[hk[0] + 1:]:
                if e.kind == "call" and e.name in ("extend", "append") and e.args:
                    a = _sa(e.args[0])
                    if a is not None and a[:2] == hv and e.recv is not None and p.ret is not None and e.recv == p.ret:
                        used = True
            if p.ret is not None and any(a[:2] == hv for a in _atoms_deep(p.ret)):
                used = True
            if not used:
                hook_ok, why = False, "the hook's statements are not added to the returned list"
        res.inst(part="planner", function=pl.qual, post_hook=hook_ok)
        if not hook_ok:
            fd = Finding("D4", pl.rel, pl.node.lineno, pl.qual, why, f"the post hook (sign extension) is not appended after the field's statements: {why}", witness="int24 holding -1 with -O", tag="planner:post-hook")
            fd.part = "planner"
            res.bad(fd)
    except Inconclusive as e:
        res.unsure(f"D4: planner post hook: {e}")

    bp = m.mod("bitprotolib/bp.py")
    for N in (8, 16, 32, 64):
        fn = bp.funcs.get(f"int{N}")
        if fn is None:
            res.unsure(f"D4: bp.int{N} vanished")
            continue
        rets = _rets(fn.node)
        sem = _wrap_semantics(fn.node, {k: v.node for k, v in bp.funcs.items()}, {})
        ok = sem is not None and sem == ((1 << (N - 1)), 0, -(1 << N))
        if sem is None:
            res.unsure(f"D4: bp.int{N} is not a two-way choice on a threshold of its argument")
            continue
        res.inst(part="py", function=f"bp.int{N}", threshold=sem[0], below=f"i{sem[1]:+d}", from_threshold=f"i{sem[2]:+d}", ok=ok)
        if not ok:
            fd = Finding("D4", BP, fn.node.lineno, f"int{N}", src_of(rets[0].value) if rets else "", f"int{N}(i) must be i below 2**{N-1} and i - 2**{N} from there on", witness=f"int{N} holding {-(1 << (N-1))} (the minimum) or {(1 << (N-1)) - 1} (the maximum)", tag=f"bp.int{N}")
            fd.part = "py"
            res.bad(fd)
    return res


# --------------------------------------------------------------------------
# D6 accessor generators (py, go)
# --------------------------------------------------------------------------


@rule("D6", "generated byte accessors address the field with that number at the right array depth, OR chunks with a total conversion")
def d6(repo: Repo) -> RuleResult:
    res = RuleResult("D6", floor=10)
    m = get_model(repo)
    from .rules_gen import judge_items

    try:
        judge_items(repo, res, "D6", ("get", "set", "acc"), lambda lang, kind: lang)
    except Inconclusive as e:
        res.unsure(f"D6: {e}")
    ps = m.func("impls/py/renderer.py", "BlockMessageMethodSetByteItem.render_single")
    # OR-accumulated leaves must start from zero in a freshly constructed message
    pf = m.cls("PyFormatter", "impls/py/formatter.py")
    zero_ok = {"format_default_value_bool": {"'False'"}, "format_default_value_byte": {"'bp.byte(0)'", "'0'"}, "format_default_value_uint": {"'0'"}, "format_default_value_int": {"'0'"}}
    for meth, accepted in zero_ok.items():
        f0 = pf.methods.get(meth)
        got = {src_of(r.value) for r in _rets(f0.node)} if f0 else set()
        res.inst(part="py", where=f"PyFormatter.{meth}", default=sorted(got))
        if not got or not got <= accepted:
            fd = Finding("D6", pf.rel, f0.node.lineno if f0 else 0, f"PyFormatter.{meth}", str(sorted(got)), "the default of a field whose decoded chunks are ORed in is not zero: decode into a fresh message yields default | value", witness="decode(encode(v)) into a new message", tag=f"py:default:{meth}")
            fd.part = "py-decode"
            res.bad(fd)
    fe = pf.methods.get("format_default_value_enum")
    if fe is not None:
        t2 = src_of(fe.node)
        res.inst(part="py", where="PyFormatter.format_default_value_enum", default=[src_of(r.value) for r in _rets(fe.node)])
        if "fields()[0]" in t2 and "value == 0" not in t2 and "(0)" not in t2:
            fd = Finding("D6", pf.rel, fe.node.lineno, "PyFormatter.format_default_value_enum", short(t2, 160), "an enum field defaults to the enum's first declared member, which need not be 0, but bp_set_byte ORs the decoded chunks into the field: decoding into a freshly constructed message yields (first member | encoded value)", witness="enum Color : uint3 { COLOR_RED = 1; COLOR_GREEN = 2 }  message M { Color c = 1 }: M().decode(M(c=COLOR_GREEN).encode()) -> c is 3: ValueError '3 is not a valid Color'", tag="py:default:enum-nonzero")
            fd.part = "py-decode"
            res.bad(fd)
    # array defaults: one freshly evaluated default per element (no shared mutable rows)
    fa = pf.methods.get("format_default_value_array")
    if fa is not None:
        from .rules_a import type_domains

        elem_dom = type_domains(repo)["ElemType"]
        for r in _rets(fa.node):
            shape = _fstring_shape(r.value) if isinstance(r.value, ast.JoinedStr) else src_of(r.value)
            res.inst(part="py", where="PyFormatter.format_default_value_array", template=shape)
            res.inst(part="py-array-default", where="PyFormatter.format_default_value_array", template=shape)
            if "] *" in shape or "]*" in shape:
                # which element classes reach this template?
                reach = []
                for c in elem_dom:
                    ok = True
                    for e, truth in facts_at(r, fa.node):
                        if isinstance(e, ast.Call) and isinstance(e.func, ast.Name) and e.func.id == "isinstance" and src_of(e.args[0]) == "t.element_type":
                            names = [x.id for x in ([e.args[1]] if isinstance(e.args[1], ast.Name) else getattr(e.args[1], "elts", [])) if isinstance(x, ast.Name)]
                            hit = any(any(k.name == nme for k in m.mro(c)) for nme in names)
                            if hit != truth:
                                ok = False
                    if ok:
                        reach.append(c.name)
                mutable = [x for x in reach if x in ("Message", "Alias", "Array")]
                if mutable:
                    fd = Finding("D6", pf.rel, r.lineno, "PyFormatter.format_default_value_array", shape, f"the array default repeats ONE element object `[x] * n` for element kinds {mutable}, whose defaults are mutable (an alias may name an array): all rows are the same object and decoded chunks are ORed into it", witness="type Row = uint8[2]; message M { Row[2] rows = 1 }: after decode both rows are equal, re-encoding differs", tag="py:default:array-shared")
                    fd.part = "py-array-default"
                    res.bad(fd)
    # enum proxy prefix: one constant everywhere
    pm = m.mod("impls/py/renderer.py")
    lits = [n.value for n in ast.walk(pm.tree) if isinstance(n, ast.Constant) and isinstance(n.value, str) and "_enum_field_proxy" in n.value]
    res.inst(part="py", where="_enum_field_proxy_prefix", literals=lits)
    if len([x for x in lits if x == "_enum_field_proxy__"]) != 1 or len(lits) != 1:
        fd = Finding("D6", pm.rel, 0, "_enum_field_proxy_prefix", str(lits), "the enum proxy attribute name is spelled in more than one place: declaration, accessors and the to_dict filter can disagree", witness="to_dict() leaks the proxy attribute / getter reads a missing attribute", tag="py:proxy-prefix")
        fd.part = "py"
        res.bad(fd)
    return res


def _atoms_deep(p: Poly) -> list:
    out = []

    def rec(q: Poly) -> None:
        for m_ in q.terms:
            for a, _ in m_:
                out.append(a)
                for x in a[1:]:
                    if isinstance(x, Poly):
                        rec(x)
                    elif isinstance(x, tuple):
                        for y in x:
                            if isinstance(y, Poly):
                                rec(y)

    rec(p)
    return out


def _fstrings(fn: ast.AST) -> List[str]:
    return [_fstring_shape(n) for n in ast.walk(fn) if isinstance(n, ast.JoinedStr)]
