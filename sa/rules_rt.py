"""
R1 - the runtime libraries keep no state between messages.

Encoding and decoding are functions of (schema, value) / (schema, bytes).  A
module-level container, package variable or file-scope variable that runtime
functions write makes the result depend on what was processed before (other
messages, other generated modules in the same process).  The rule lists every
such variable and every function that writes it.
"""

from __future__ import annotations

import ast
import json
from typing import Any, Dict, List, Optional, Set

from .core import Finding, Inconclusive, Repo, RuleResult, rule, src_of

BP = "lib/py/bitprotolib/bp.py"
GO_RT = "lib/go/bitproto.go"
C_RT = "lib/c/bitproto.c"
MUT = {"append", "extend", "insert", "pop", "remove", "clear", "update", "setdefault", "popitem", "add", "discard", "sort", "reverse", "__setitem__"}


def _walk_nodes(n: Any):
    if isinstance(n, dict):
        yield n
        for v in n.values():
            yield from _walk_nodes(v)
    elif isinstance(n, list):
        for v in n:
            yield from _walk_nodes(v)


@rule("R1", "runtime libraries: no module / package / file-scope variable is written by a runtime function")
def r1(repo: Repo) -> RuleResult:
    res = RuleResult("R1", floor=3)
    # ---- Python
    tree = repo.py(BP)
    module_names: Dict[str, ast.AST] = {}
    for st in tree.body:
        tg: List[ast.AST] = []
        val = None
        if isinstance(st, ast.Assign):
            tg, val = list(st.targets), st.value
        elif isinstance(st, ast.AnnAssign) and st.value is not None:
            tg, val = [st.target], st.value
        for t in tg:
            if isinstance(t, ast.Name):
                module_names[t.id] = val  # type: ignore[assignment]
    classes = {st.name for st in tree.body if isinstance(st, ast.ClassDef)}
    n_fn = 0
    for fn in [n for n in ast.walk(tree) if isinstance(n, (ast.FunctionDef, ast.AsyncFunctionDef))]:
        n_fn += 1
        local = {a.arg for a in fn.args.args + fn.args.kwonlyargs}
        for n in ast.walk(fn):
            if isinstance(n, (ast.Assign, ast.AnnAssign, ast.AugAssign)):
                for t in (n.targets if isinstance(n, ast.Assign) else [n.target]):
                    if isinstance(t, ast.Name):
                        local.add(t.id)
        globals_declared = {x for n in ast.walk(fn) if isinstance(n, (ast.Global, ast.Nonlocal)) for x in n.names}
        local -= globals_declared
        for n in ast.walk(fn):
            target = None
            how = ""
            if isinstance(n, ast.Call) and isinstance(n.func, ast.Attribute) and n.func.attr in MUT and isinstance(n.func.value, ast.Name):
                target, how = n.func.value.id, f".{n.func.attr}()"
            elif isinstance(n, (ast.Assign, ast.AugAssign, ast.AnnAssign)):
                for t in (n.targets if isinstance(n, ast.Assign) else [n.target]):
                    if isinstance(t, ast.Subscript) and isinstance(t.value, ast.Name):
                        target, how = t.value.id, "[...] ="
                    elif isinstance(t, ast.Name) and t.id in globals_declared:
                        target, how = t.id, "global rebinding"
                    elif isinstance(t, ast.Attribute) and isinstance(t.value, ast.Name) and t.value.id in classes:
                        target, how = t.value.id, f".{t.attr} = (class attribute)"
            elif isinstance(n, ast.Delete):
                for t in n.targets:
                    if isinstance(t, ast.Subscript) and isinstance(t.value, ast.Name):
                        target, how = t.value.id, "del [...]"
            elif isinstance(n, ast.Call) and isinstance(n.func, ast.Name) and n.func.id == "setattr" and n.args and isinstance(n.args[0], ast.Name) and n.args[0].id in ({"cls"} | classes):
                target, how = n.args[0].id, "setattr on a class"
            if target is None:
                continue
            if (target in module_names and target not in local) or target in globals_declared or how.endswith("(class attribute)") or how == "setattr on a class":
                f = Finding("R1", BP, n.lineno, fn.name, src_of(n)[:120], f"the Python runtime writes `{target}` ({how}), which lives at module / class level: what one message (or one generated module) leaves there is seen by the next", witness="two generated modules in one process defining a message of the same name with different layouts", tag=f"py:{fn.name}:{target}")
                f.part = "py"
                res.bad(f)
    # a default argument is evaluated once, when the function is defined: a mutable default (a list / dict /
    # set display, or an object constructed in the default) is one object shared by every call that omits it
    IMMUTABLE_CALLS = {"tuple", "frozenset", "int", "str", "bytes", "float", "bool", "object"}
    n_def = 0
    for fn in [n for n in ast.walk(tree) if isinstance(n, (ast.FunctionDef, ast.AsyncFunctionDef, ast.Lambda))]:
        pos = fn.args.posonlyargs + fn.args.args
        pairs = list(zip(pos[len(pos) - len(fn.args.defaults):], fn.args.defaults)) + [(a_, d_) for a_, d_ in zip(fn.args.kwonlyargs, fn.args.kw_defaults) if d_ is not None]
        for a_, d_ in pairs:
            n_def += 1
            mutable = isinstance(d_, (ast.List, ast.Dict, ast.Set, ast.ListComp, ast.DictComp, ast.SetComp)) or (isinstance(d_, ast.Call) and not (isinstance(d_.func, ast.Name) and d_.func.id in IMMUTABLE_CALLS))
            if mutable:
                f = Finding("R1", BP, d_.lineno, getattr(fn, "name", "<lambda>"), f"{a_.arg}={src_of(d_)}", f"the default of parameter `{a_.arg}` is the mutable object `{src_of(d_)}`, created once when the function is defined: every call that omits the argument shares it, so what one message (or one encode / decode) leaves in it is seen by the next", witness="two messages, or the same message twice, processed in one interpreter", tag=f"py:{getattr(fn, 'name', 'lambda')}:default:{a_.arg}")
                f.part = "py"
                res.bad(f)
    # dataclass fields of the runtime classes: a mutable class-level default is shared by all instances
    for cd in [n for n in ast.walk(tree) if isinstance(n, ast.ClassDef)]:
        for st in cd.body:
            if isinstance(st, ast.AnnAssign) and st.value is not None and isinstance(st.value, (ast.List, ast.Dict, ast.Set)) and "ClassVar" not in src_of(st.annotation):
                f = Finding("R1", BP, st.lineno, cd.name, src_of(st), "a mutable class-level default is shared by all instances of the runtime class", tag=f"py:{cd.name}:class-default:{src_of(st.target)}")
                f.part = "py"
                res.bad(f)
    res.inst(part="py", module_names=len(module_names), functions=n_fn, defaults=n_def)
    # the same for the functions the Python generator emits
    try:
        import re as _re

        from .emit import class_emissions

        n_gen = 0
        for cname, lines in class_emissions(repo, "impls/py/renderer.py", "render", named=True).items():
            for ln in lines:
                t_ = ln.strip()
                if not t_.startswith("def ") or not t_.rstrip().endswith(":"):
                    continue
                n_gen += 1
                # holes become identifiers so that the signature parses
                sig = _re.sub(r"\{[^{}]*\}", "HOLE", t_)
                try:
                    fn_g = ast.parse(sig + "\n    pass").body[0]
                except SyntaxError:
                    continue
                if not isinstance(fn_g, ast.FunctionDef):
                    continue
                pos = fn_g.args.posonlyargs + fn_g.args.args
                pairs = list(zip(pos[len(pos) - len(fn_g.args.defaults):], fn_g.args.defaults)) + [(a_, d_) for a_, d_ in zip(fn_g.args.kwonlyargs, fn_g.args.kw_defaults) if d_ is not None]
                for a_, d_ in pairs:
                    mutable = isinstance(d_, (ast.List, ast.Dict, ast.Set)) or (isinstance(d_, ast.Call) and not (isinstance(d_.func, ast.Name) and d_.func.id in IMMUTABLE_CALLS))
                    if mutable:
                        f = Finding("R1", "compiler/bitproto/renderer/impls/py/renderer.py", 0, cname, t_, f"the generated function takes `{a_.arg}={src_of(d_)}`: a mutable default is created once per class and shared by every call, so one encode / decode sees what the previous one left", witness="encode two different values of one message class in one interpreter: the second image is the OR of both", tag=f"py-gen:{cname}:default:{a_.arg}")
                        f.part = "py-gen"
                        res.bad(f)
        res.inst(part="py-gen", generated_signatures=n_gen)
        if n_gen == 0:
            res.unsure("R1: no generated Python function signature found in the emissions")
    except Inconclusive as e:
        res.unsure(f"R1: generated Python: {e}")
    # ---- Go
    try:
        from .gomodel import get_go, go_src

        g = get_go(repo)
        pkg_vars: Set[str] = set()
        for d in g.tree.decls:
            if d.k == "var":
                for nm in d.get("names", []):
                    pkg_vars.add(nm)
        nfun = 0
        for key, fn in g.funcs.items():
            if fn.get("body") is None:
                continue
            nfun += 1
            locals_: Set[str] = {p.name for p in fn.params}
            if fn.get("recv") is not None and fn.recv.get("name"):
                locals_.add(fn.recv.name)
            for n in _walk_nodes(fn.body):
                if n.get("k") == "assign" and n.get("op") == ":=":
                    for l in n["lhs"]:
                        if l.get("k") == "id":
                            locals_.add(l["name"])
                if n.get("k") == "range" and n.get("define"):
                    for l in n.get("lhs") or []:
                        if l.get("k") == "id":
                            locals_.add(l["name"])
            for n in _walk_nodes(fn.body):
                if n.get("k") in ("assign", "incdec"):
                    lhs = n["lhs"] if n.get("k") == "assign" else [n["x"]]
                    for l in lhs:
                        base = l
                        while base.get("k") in ("index", "sel", "paren") and base.get("x") is not None:
                            base = base["x"]
                        if base.get("k") == "id" and base["name"] in pkg_vars and base["name"] not in locals_ and n.get("op") != ":=":
                            f = Finding("R1", GO_RT, n.get("line", 0), key, go_src(l), f"the Go runtime writes the package variable `{base['name']}`: state is shared by every message processed in the program", witness="two goroutines / two message types", tag=f"go:{key}:{base['name']}")
                            f.part = "go"
                            res.bad(f)
        res.inst(part="go", package_vars=sorted(pkg_vars), functions=nfun)
    except Inconclusive as e:
        res.unsure(f"R1: go: {e}")
    # ---- C: file-scope variables that are not const
    try:
        from .cmodel import _clang_json

        for defines in ((), ("BP_BIG_ENDIAN",)):
            tree_c = _clang_json(repo, defines)
            gl = []
            cur_file = ""
            for d in tree_c.get("inner", []):
                loc = d.get("loc", {}) or {}
                for l_ in (loc, loc.get("spellingLoc", {}) or {}, loc.get("expansionLoc", {}) or {}):
                    if l_.get("file"):
                        cur_file = l_["file"]
                if d.get("kind") != "VarDecl" or d.get("isImplicit"):
                    continue
                if not (cur_file.endswith("bitproto.c") or cur_file.endswith("bitproto.h")):
                    continue
                qt = (d.get("type") or {}).get("qualType", "")
                if "const" not in qt.split("*")[-1]:
                    gl.append((d.get("name"), qt, loc.get("line", 0)))
            res.inst(part="c", variant="be" if defines else "le", file_scope_variables=[x[0] for x in gl])
            for name, qt, line in gl:
                f = Finding("R1", C_RT, line or 0, "<file scope>", f"{qt} {name}", f"the C runtime has the writable file-scope variable `{name}`: state shared by every message processed (and by threads)", witness="two messages processed alternately", tag=f"c:{name}")
                f.part = "c"
                if not any(x.tag == f.tag for x in res.findings):
                    res.bad(f)
    except Inconclusive as e:
        res.unsure(f"R1: c: {e}")
    return res
