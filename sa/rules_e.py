"""
D2 op-mode item templates, F5 endian selection, C8 JSON domain (Python),
F3 layout non-interference, F1 balance, F2 children first, F6/F7 names.
"""

from __future__ import annotations

import ast
import re
from typing import Any, Dict, List, Optional, Set, Tuple

from .core import Finding, Inconclusive, Repo, RuleResult, rule, short, src_of
from .guards import facts_at
from .pymodel import get_model
from .rules_b import _fstring_shape

CF = "impls/c/formatter.py"
GF = "impls/go/formatter.py"


def _shapes(fn: ast.AST) -> List[str]:
    return [_fstring_shape(n) for n in ast.walk(fn) if isinstance(n, ast.JoinedStr)]


def _locals(fn: ast.AST) -> Dict[str, str]:
    out: Dict[str, str] = {}
    for n in ast.walk(fn):
        if isinstance(n, ast.Assign) and len(n.targets) == 1 and isinstance(n.targets[0], ast.Name):
            out.setdefault(n.targets[0].id, src_of(n.value))
    return out


def _resolved_returns(fn: ast.AST) -> List[Tuple[str, ast.Return]]:
    """Shapes of the returned templates with local f-string variables inlined."""
    local_tpl: Dict[str, str] = {}
    params = {a.arg for a in fn.args.args} if isinstance(fn, ast.FunctionDef) else set()
    for n in ast.walk(fn):
        if isinstance(n, ast.Assign) and len(n.targets) == 1 and isinstance(n.targets[0], ast.Name) and isinstance(n.value, ast.JoinedStr) and n.targets[0].id not in params:
            local_tpl.setdefault(n.targets[0].id, _fstring_shape(n.value))
    out = []
    for r in ast.walk(fn):
        if isinstance(r, ast.Return) and r.value is not None:
            v = r.value
            if isinstance(v, ast.Name) and v.id in local_tpl:
                shape = local_tpl[v.id]
            elif isinstance(v, ast.JoinedStr):
                shape = _fstring_shape(v)
            else:
                continue
            for _ in range(3):
                for k, t in local_tpl.items():
                    shape = shape.replace("{" + k + "}", t)
            out.append((shape, r))
    return out


# --------------------------------------------------------------------------
# D2: the statement each item formatter emits, as a function of the planner's
# outputs.  The formatter is summarised by the path engine (private helpers,
# smart shift and shift renderers inlined), then every point of the planner's
# output domain  r in 0..7, shift in -7..7, fi in 0..7  is folded into the path
# conditions and the template holes; the resulting statement text must be the
# one the layout rule prescribes for that point.
# --------------------------------------------------------------------------

PARAMS7 = ["chain", "t", "si", "fi", "shift", "mask", "r"]

# scenario name -> (class of t, class of t.type or None)
SCENARIOS = [("Uint", None), ("Int", None), ("Byte", None), ("Bool", None), ("Enum", "Uint"), ("Alias", "Uint"), ("Alias", "Int"), ("Alias", "Bool"), ("Alias", "Byte")]


def _scenario_decider(repo: Repo, tcls: str, target: Optional[str], flags: Dict[str, bool]):
    from .normal import V

    m = get_model(repo)

    def cls(n: str):
        try:
            return m.cls(n, "_ast.py")
        except Inconclusive:
            return None

    subjects = {V("t"): cls(tcls)}
    if target is not None:
        subjects[V("t.type")] = cls(target)

    def decide(key: Any) -> Optional[bool]:
        if key[0] == "isinstance" and key[1] in subjects and subjects[key[1]] is not None:
            k = subjects[key[1]]
            res_ = False
            for n in key[2]:
                c = cls(n)
                if c is None:
                    return None
                if m.is_subclass(k, c):
                    res_ = True
            return res_
        if key[0] == "truthy":
            from .normal import show

            nm = show(key[1])
            if nm in flags:
                return flags[nm]
        return None

    return decide


def _sm(n: int) -> str:
    return f">> {n}" if n > 0 else (f"<< {-n}" if n < 0 else "")


def _squash(x: str) -> str:
    return "".join(x.split())


def expected_statements(lang: str, which: str, be: bool, tcls: str, target: Optional[str], r: int, shift: int, fi: int) -> List[str]:
    """The statement(s) the layout rule prescribes (several when more than one
    spelling is correct C / Go)."""
    A = "=" if r == 0 else "|="
    S = _sm(shift)
    is_bool = tcls == "Bool"
    alias_bool = tcls == "Alias" and target == "Bool"
    if lang == "c":
        if not be:
            if which == "encoder":
                return [f"s[{{si}}] {A} (((unsigned char *)&({{chain}}))[{fi}] {S}) & {{mask}};"]
            return [f"((unsigned char *)&({{chain}}))[{fi}] {A} (s[{{si}}] {S}) & {{mask}};"]
        # @U@ stands for an unsigned C integer type; its width is judged separately (needs_width)
        if which == "encoder":
            return [f"s[{{si}}] {A} ((@U@)({{chain}}){_sm(fi * 8 + shift)}) & {{mask}};"]
        bv = f"(((unsigned)(s[{{si}}]){S}) & {{mask}})"
        if fi == 0:
            return [f"{{chain}} |= ({{CT}}){bv};", f"{{chain}} |= ({{CT}})((@U@){bv} << 0);"]
        out = [f"{{chain}} |= ({{CT}})((@U@){bv} << {fi * 8});"]
        if fi * 8 < 32:
            out.append(f"{{chain}} |= ({{CT}})({bv} << {fi * 8});")
        return out
    # go
    if which == "encoder":
        ch = "bool2byte({chain})" if is_bool else ("bool2byte(bool({chain}))" if alias_bool else "{chain}")
        bsh = f" >> {fi * 8}" if fi > 0 else ""
        return [f"s[{{si}}] |= (byte({ch}{bsh}) {S}) & {{mask}}"]
    byte = f"byte(s[{{si}}] {S}) & {{mask}}"
    bsh = f" << {fi * 8}" if fi > 0 else ""
    if is_bool:
        return [f"{{chain}} = byte2bool({byte}){bsh}"]
    if alias_bool:
        return [f"{{chain}} = {{CT}}(byte2bool({byte})){bsh}"]
    return [f"{{chain}} |= {{CT}}({byte}){bsh}"]


UNSIGNED_WIDTH = {"uint8_t": 8, "unsigned char": 8, "uint16_t": 16, "unsigned short": 16, "unsigned": 32, "unsigned int": 32, "uint32_t": 32, "uint64_t": 64, "unsigned long long": 64}


def match_statement(got: str, want: str) -> Optional[Optional[str]]:
    """None: no match.  Otherwise the unsigned type found at @U@ ('' if the
    pattern has none)."""
    g = _squash(got)
    pat = re.escape(_squash(want)).replace(re.escape("@U@"), "(" + "|".join(re.escape(_squash(k)) for k in sorted(UNSIGNED_WIDTH, key=len, reverse=True)) + ")")
    mm = re.fullmatch(pat, g)
    if mm is None:
        return None
    return mm.group(1) if mm.groups() else ""


def needs_width(which: str, storage: int, shift: int, fi: int) -> int:
    """Bits the unsigned working type of a big-endian statement must have:
    the encoder reads value bits [total, total + 8) (all below the storage
    size), the decoder places a byte at bit fi * 8."""
    if which == "encoder":
        total = fi * 8 + shift
        return min(storage, max(total, 0) + 8)
    return min(storage, fi * 8 + 8)


def _item_paths(repo: Repo, cls: str, rel: str, meth: str, tcls: str, target: Optional[str], be: bool):
    from .flows import compiler_flow
    from .normal import V

    m = get_model(repo)
    fi_ = m.func(rel, f"{cls}.{meth}")
    params = [a.arg for a in fi_.node.args.args]
    if len(params) != 8:
        raise Inconclusive(f"{cls}.{meth}: parameter list is {params}")
    flow = compiler_flow(repo, cls, rel, primitives=("format_type", "get_nbits_of_integer"), pure=("format_type", "get_nbits_of_integer"), decide=_scenario_decider(repo, tcls, target, {"self._op_mode_big_endian": be}), names={})
    args = {p: V(c) for p, c in zip(params[1:], PARAMS7)}
    args[params[0]] = V("self")
    return fi_, flow.run(fi_.node, args)


def _render(ret: Any, repl) -> Optional[str]:
    from .fold import replace_atoms
    from .normal import show
    from .pyflow import single_atom, tpl_shape

    def hole(h: Any) -> str:
        v = replace_atoms(h, repl)
        cv = v.const_value()
        if cv is not None:
            return str(cv)
        a = single_atom(v)
        if a is not None and a[0] in ("call", "mcall") and a[1] == "_format_unsigned_chain_type":
            return "{U}"
        if a is not None and a[0] in ("call", "mcall") and a[1] == "format_type":
            return "{CT}"
        if a is not None and a[0] == "var" and a[1] in ("si", "chain", "mask"):
            return "{" + a[1] + "}"
        if a is not None and a[0] in ("str", "tpl"):
            inner = tpl_shape(v, hole)
            return inner if inner is not None else "{?" + show(v) + "}"
        return "{?" + show(v) + "}"

    return tpl_shape(ret, hole)


@rule("D2", "optimization-mode item templates: every hole has the role the planner computed it for; `=` only at r == 0; conversions placed around the shifts")
def d2(repo: Repo) -> RuleResult:
    from .fold import by_name, feasible

    res = RuleResult("D2", floor=6)
    m = get_model(repo)
    sites = [
        ("c", "c-le", "CFormatter", CF, False),
        ("c", "c-be", "CFormatter", CF, True),
        ("go", "go", "GoFormatter", GF, False),
    ]
    for lang, part, cls, rel, be in sites:
        for which in ("encoder", "decoder"):
            meth = f"format_op_mode_{which}_item"
            reported = False
            for tcls, target in SCENARIOS:
                if reported:
                    break
                # bool chunks are always whole: fi = 0, r arbitrary
                try:
                    fi_, paths = _item_paths(repo, cls, rel, meth, tcls, target, be)
                except Inconclusive as e:
                    res.unsure(f"D2: {cls}.{meth}: {e}")
                    reported = True
                    break
                checked = 0
                leaf_ = target or tcls
                storages = (8,) if leaf_ in ("Bool", "Byte") else (8, 16, 32, 64)
                grid = [(S_, fi, shift, r) for S_ in storages for fi in (range(0, 1) if leaf_ == "Bool" else range(0, S_ // 8)) for shift in range(-7, 8) for r in (0, 1, 3, 7)]
                for S_, fi, shift, r in grid:
                    if reported:
                        break
                    repl = by_name({"r": r, "shift": shift, "fi": fi}, {"get_nbits_of_integer": S_})
                    ok, unfolded = feasible(paths, repl)
                    if unfolded:
                        res.unsure(f"D2: {cls}.{meth}: condition `{unfolded[0]}` does not fold for (r, shift, fi) = ({r}, {shift}, {fi})")
                        reported = True
                        break
                    ok = [p for p in ok if p.done == "return"]
                    stmts = sorted({(_render(p.ret, repl) or "{?}") for p in ok})
                    want = expected_statements(lang, which, be, tcls, target, r, shift, fi)
                    checked += 1
                    if len(stmts) != 1:
                        res.unsure(f"D2: {cls}.{meth}: {len(stmts)} statements for one planner output ({r}, {shift}, {fi})")
                        reported = True
                        break
                    got = stmts[0]
                    if "{?" in got:
                        res.unsure(f"D2: {cls}.{meth}: statement `{got}` has a hole that is not one of the planner outputs")
                        reported = True
                        break
                    matches = [match_statement(got, w) for w in want]
                    found = [u for u in matches if u is not None]
                    if found:
                        u = found[0]
                        if u and UNSIGNED_WIDTH[[k for k in UNSIGNED_WIDTH if _squash(k) == u][0]] < needs_width(which, S_, shift, fi):
                            need = needs_width(which, S_, shift, fi)
                            f = Finding("D2", fi_.rel, fi_.node.lineno, fi_.qual, got, f"for a {tcls}{'->' + target if target else ''} field stored in {S_} bits and planner output (r={r}, shift={shift}, fi={fi}) the big-endian {which} works on `{u}`, which has fewer than the {need} bits this chunk reaches: the value's upper bits are lost", witness="a field wider than 32 bits at a non byte-aligned position holding a value with bits above 31, -O on a big-endian build", tag=f"{fi_.qual}:{part}:working-type-width")
                            f.part = part
                            res.bad(f)
                            reported = True
                            break
                        continue
                    strip = lambda x: _squash(x).replace("(", "").replace(")", "").replace("@U@", "")
                    if True:
                        if strip(got) in {strip(w) for w in want}:
                            res.unsure(f"D2: {cls}.{meth}: statement `{got}` differs from `{want[0]}` only in parentheses; operator precedence not judged")
                            reported = True
                            break
                        msg, wit = _explain(got, want[0], lang, which, be, r, shift, fi, tcls, target)
                        f = Finding("D2", fi_.rel, fi_.node.lineno, fi_.qual, got, f"for a {tcls}{'->' + target if target else ''} field and planner output (r={r}, shift={shift}, fi={fi}) the {'big-endian ' if be else ''}{which} emits `{got}`; the layout rule requires `{want[0]}`: {msg}", witness=wit, tag=f"{fi_.qual}:{part}:{_tag_of(msg)}")
                        f.part = part
                        res.bad(f)
                        reported = True
                        break
                res.inst(part=part, function=f"{cls}.{meth}", scenario=f"{tcls}{'->' + target if target else ''}", grid_points=checked, paths=len(paths))
    # unsigned working type of the big-endian templates
    try:
        _unsigned_chain(repo, res)
    except Inconclusive as e:
        res.unsure(f"D2: {e}")
    return res


def _tag_of(msg: str) -> str:
    return msg.split(":")[0].split(" (")[0][:40].replace(" ", "-")


def _explain(got: str, want: str, lang: str, which: str, be: bool, r: int, shift: int, fi: int, tcls: str, target: Optional[str]) -> Tuple[str, str]:
    g, w = _squash(got), _squash(want)
    if "&{mask}" not in g:
        return "unmasked (the chunk is not limited to its c bits, so an out-of-range value or sign bits reach the next field's bits or the padding)", "a byte-aligned field whose width is not a multiple of 8 holding an out-of-range value, with -O"
    if ("|=" in w) != ("|=" in g):
        if "|=" in w:
            return "assign (`=` where earlier chunks of the same byte / field must be kept)", "`=` at r != 0 clobbers bits already placed in the byte"
        return "assign (`|=` on the first write of a byte that has no zero baseline)", "decode into a reused struct keeps stale bits"
    if lang == "c" and be and which == "decoder" and "<<" in w and fi * 8 >= 32 and not re.search(r"\((uint64_t|unsignedlonglong)\)\(+\(unsigned\)", g):
        return "widen-threshold (the 32-bit `unsigned` byte value is shifted left without first being widened to the field's unsigned type)", "uint33 holding 2**32 decodes as 0 with -O on a big-endian build"
    if lang == "go" and which == "decoder" and "<<" in w and not g.endswith(w[w.rfind("<<"):]):
        return "widen (the chunk is shifted before it is widened to the field's type)", "uint16 field: byte(...) << 8 is always 0"
    return "roles (a hole or shift does not carry the quantity the planner computed for it)", "a multi-byte field at a non-zero bit offset with -O"


def _unsigned_chain(repo: Repo, res: RuleResult) -> None:
    """CFormatter._format_unsigned_chain_type per class of t: an unsigned C
    type at least as wide as the storage of the leaf integer."""
    from .flows import compiler_flow
    from .normal import V, show
    from .pyflow import single_atom, tpl_shape

    m = get_model(repo)
    uc = m.func(CF, "CFormatter._format_unsigned_chain_type")
    param = uc.node.args.args[1].arg
    wide_ok = {"uint64_t"}
    small_ok = {"uint8_t", "unsigned char", "unsigned", "unsigned int", "uint16_t", "uint32_t", "uint64_t"}
    for tcls, target in SCENARIOS:
        flow = compiler_flow(repo, "CFormatter", CF, primitives=("get_nbits_of_integer", "format_uint_type", "format_int_type"), pure=("get_nbits_of_integer", "format_uint_type", "format_int_type"), decide=_scenario_decider(repo, tcls, target, {}))
        paths = flow.run(uc.node, {"self": V("self"), param: V("t")})
        leaf = "t.type" if target is not None else "t"
        leaf_cls = target or tcls
        vals = []
        for p in paths:
            if p.done != "return" or p.ret is None:
                vals.append("<raise>")
                continue
            vals.append(tpl_shape(p.ret) or "{" + show(p.ret) + "}")
        vals = sorted(set(vals))
        res.inst(part="c-be", function=uc.qual, scenario=f"{tcls}{'->' + target if target else ''}", returns=vals)
        if len(vals) != 1:
            res.unsure(f"D2: {uc.qual}: {len(vals)} results for a {tcls}{'->' + target if target else ''}: {vals}")
            continue
        v = vals[0]
        if leaf_cls in ("Bool", "Byte"):
            ok = v in small_ok
        else:
            ok = v in wide_ok or v in (f"uint{{self.get_nbits_of_integer({leaf})}}_t", f"{{self.format_uint_type({leaf})}}")
        if not ok:
            if "{" not in v or "get_nbits_of_integer" in v or "format_uint_type" in v or "format_int_type" in v:
                f = Finding("D2", uc.rel, uc.node.lineno, uc.qual, v, f"for a {tcls}{'->' + target if target else ''} field the big-endian templates shift the value as `{v}`, which is not the unsigned integer of the field's storage size (leaf `{leaf}`)", witness="an alias of uint64 holding a value with bits above 31 encodes wrongly with -O on a big-endian build", tag=f"unsigned_chain_type:{tcls}{'->' + target if target else ''}")
                f.part = "c-be"
                res.bad(f)
            else:
                res.unsure(f"D2: {uc.qual}: result `{v}` for {tcls} not recognised")


@rule("F5", "--endian selects exactly the little- and/or big-endian statement lists, `both` under #ifndef BP_BIG_ENDIAN / #else / #endif")
def f5(repo: Repo) -> RuleResult:
    from .emit import block_flow, render_hole
    from .flows import compiler_flow
    from .normal import C as K, V, show
    from .pyflow import single_atom, str_of, tpl_shape

    res = RuleResult("F5", floor=2)
    m = get_model(repo)

    def endian_decider(value: str):
        def dec(key: Any) -> Optional[bool]:
            if key[0] in ("eq", "is") and len(key) == 3:
                a_, b_ = key[1], key[2]
                sa_, sb_ = str_of(a_), str_of(b_)
                other = b_ if sa_ is not None else a_
                lit = sa_ if sa_ is not None else sb_
                if lit is not None and "optimization_mode_endian" in show(other):
                    return lit == value
            if key[0] == "in" and "optimization_mode_endian" in show(key[1]):
                return value in key[2]
            return None

        return dec

    def events(p_: Any) -> Optional[List[Tuple[Any, ...]]]:
        out: List[Tuple[Any, ...]] = []
        for e in p_.effects:
            if e.kind == "call" and e.name == "push" and e.args:
                t = tpl_shape(e.args[0], lambda h: "{" + show(h) + "}") or "{?}"
                if t.lstrip().startswith("#"):
                    out.append(("line", t.strip()))
                elif "".join(t.split()) == "memset(m,0,sizeof(*m));":
                    out.append(("zero",))
            elif e.kind == "loop":
                it = single_atom(e.args[0]) if e.args else None
                if it is not None and it[0] == "mcall" and it[1] == "format_op_mode_message_endian":
                    pos = [x for x in it[2][1:] if not (single_atom(x) is not None and single_atom(x)[0] == "kw")]
                    kws = {single_atom(x)[1]: single_atom(x)[2] for x in it[2][1:] if single_atom(x) is not None and single_atom(x)[0] == "kw"}
                    names = ["message", "is_encode", "big_endian"]
                    vals = dict(zip(names, pos))
                    vals.update(kws)
                    ok_body = all(len([c for c in b.effects if c.kind == "call" and c.name == "push"]) == 1 for b in (e.sub or []))
                    out.append(("stmts", show(vals.get("message", K(-1))), vals.get("is_encode", K(-1)).const_value(), vals.get("big_endian", K(-1)).const_value(), ok_body))
                else:
                    return None
        return out

    for cname, is_enc in (("BlockMessageEncoderOpMode", True), ("BlockMessageDecoderOpMode", False)):
        try:
            c = m.cls(cname, "impls/c/renderer_c.py")
            rfn = m.lookup(c, "render")
            if rfn is None:
                raise Inconclusive(f"{cname}.render not found")
        except Inconclusive as e:
            res.unsure(f"F5: {e}")
            continue
        E = int(is_enc)
        # the big-endian decoder statements only OR: they need a zeroed message in front of them
        Z = [] if is_enc else [("zero",)]
        want = {
            "little": [("stmts", "self.d", E, 0, True)],
            "big": Z + [("stmts", "self.d", E, 1, True)],
            "both": [("line", "#ifndef BP_BIG_ENDIAN"), ("stmts", "self.d", E, 0, True), ("line", "#else")] + Z + [("stmts", "self.d", E, 1, True), ("line", "#endif")],
        }
        for value in ("little", "big", "both"):
            try:
                flow = block_flow(repo, cname, "impls/c/renderer_c.py", "CFormatter", "impls/c/formatter.py", {}, keep=("format_op_mode_message_endian", "_get_ctx_or_raise"), pure=("format_op_mode_message_endian", "_get_ctx_or_raise"))
                flow.decide = endian_decider(value)
                paths = [p_ for p_ in flow.run(rfn.node, {"self": V("self")}) if p_.done == "return"]
            except Inconclusive as e:
                res.unsure(f"F5: {cname}: {e}")
                break
            evs = [events(p_) for p_ in paths]
            res.inst(function=f"{cname}.render", endian=value, events=[str(x) for x in evs][:2])
            if len(paths) != 1 or evs[0] is None:
                res.unsure(f"F5: {cname}.render: --endian {value}: {len(paths)} paths / unrecognised loop; selection not decided by the endian value alone")
                break
            got_cmp = list(evs[0])
            if value == "little" and got_cmp[:1] == [("zero",)]:
                got_cmp = got_cmp[1:]  # zeroing in front of the assigning little-endian statements is harmless
            if is_enc:
                got_cmp = [x for x in got_cmp if x != ("zero",)]
            if got_cmp != want[value]:
                got = evs[0]
                res.bad(Finding("F5", m.mod("impls/c/renderer_c.py").rel, c.node.lineno, f"{cname}.render", str(got), f"for --endian {value} the {'encoder' if is_enc else 'decoder'} body is {got}; expected {want[value]} (little -> little-endian statements; big -> big-endian statements; both -> #ifndef BP_BIG_ENDIAN little #else big #endif, each for this message and direction; the OR-only big-endian decoder statements preceded by memset(m, 0, sizeof(*m)))", witness="the default output runs the byte-pointer statements on a big-endian host / --endian little output contains the big-endian statements", tag=f"{cname}:selection"))
                break
    # the flag function: mode flag = big_endian while the statements are generated, restored afterwards
    try:
        fe = m.func("impls/c/formatter.py", "CFormatter.format_op_mode_message_endian")
        params = [a.arg for a in fe.node.args.args]
        ok = len(params) == 4
        why = "parameter list changed"
        if ok:
            for enc in (True, False):
                def dec(key: Any, enc: bool = enc) -> Optional[bool]:
                    if key[0] == "truthy" and show(key[1]) == "is_encode":
                        return enc
                    return None

                flow = compiler_flow(repo, "CFormatter", "impls/c/formatter.py", decide=dec, primitives=("format_op_mode_encode_message", "format_op_mode_decode_message"))
                for p_ in flow.run(fe.node, {params[0]: V("self"), params[1]: V("message"), params[2]: V("is_encode"), params[3]: V("big_endian")}):
                    if p_.done != "return":
                        continue
                    seq = [e for e in p_.effects if (e.kind == "setattr" and e.name.endswith("_op_mode_big_endian")) or (e.kind == "call" and e.name in ("format_op_mode_encode_message", "format_op_mode_decode_message"))]
                    names = [(e.kind, e.name if e.kind == "call" else show(e.args[0])) for e in seq]
                    want_call = "format_op_mode_encode_message" if enc else "format_op_mode_decode_message"
                    if names != [("setattr", "big_endian"), ("call", want_call), ("setattr", "0")]:
                        ok, why = False, f"is_encode={enc}: {names}"
                    a_ = single_atom(p_.ret) if p_.ret is not None else None
                    if a_ is None or a_[0] != "mcall" or a_[1] != want_call or [show(x) for x in a_[2]] != ["self", "message"]:
                        ok, why = False, f"is_encode={enc}: returns {show(p_.ret) if p_.ret is not None else None}"
        res.inst(function=fe.qual, ok=ok)
        if not ok:
            res.bad(Finding("F5", fe.rel, fe.node.lineno, fe.qual, why, f"the mode flag is not set from big_endian while the statements are generated (and cleared afterwards), or encode/decode are exchanged: {why}", witness="--endian big output contains byte-pointer statements", tag="message_endian"))
    except Inconclusive as e:
        res.unsure(f"F5: {e}")
    # -O entry points: planner started with the direction and a fresh bit cursor [0]
    for meth, flag in (("format_op_mode_encode_message", 1), ("format_op_mode_decode_message", 0)):
        try:
            f2 = m.func("renderer/formatter.py", f"Formatter.{meth}")
            flow = compiler_flow(repo, "Formatter", "renderer/formatter.py", primitives=("format_op_mode_endecode_message", "format_op_mode_endecoder_message_var"), pure=("format_op_mode_endecoder_message_var",))
            ok = True
            got = ""
            for p_ in flow.run(f2.node, {"self": V("self"), f2.node.args.args[1].arg: V("message")}):
                a_ = single_atom(p_.ret) if p_.ret is not None else None
                got = show(p_.ret) if p_.ret is not None else "None"
                if a_ is None or a_[0] != "mcall" or a_[1] != "format_op_mode_endecode_message" or len(a_[2]) != 5:
                    ok = False
                    continue
                _, msg, chain, enc, cur = a_[2]
                ca = single_atom(chain)
                if show(msg) != "message" or enc.const_value() != flag or show(cur) != "(0)" or ca is None or ca[0] != "mcall" or ca[1] != "format_op_mode_endecoder_message_var":
                    ok = False
            res.inst(function=f"Formatter.{meth}", ok=ok)
            if not ok:
                res.bad(Finding("F5", f2.rel, f2.node.lineno, f"Formatter.{meth}", got, f"the planner is not started with is_encode={bool(flag)} and a fresh bit cursor [0]", witness="the second message of a file starts at the first one's end offset", tag=meth))
        except Inconclusive as e:
            res.unsure(f"F5: {e}")
    return res


# --------------------------------------------------------------------------
# C8 JSON domain (Python)
# --------------------------------------------------------------------------


@rule("C8", "every Python type a generated field can have is serialisable by MessageBase.to_json")
def c8(repo: Repo) -> RuleResult:
    res = RuleResult("C8", floor=3)
    m = get_model(repo)
    pf = m.cls("PyFormatter", "impls/py/formatter.py")
    emitted: Set[str] = set()
    for meth in ("format_bool_type", "format_byte_type", "format_uint_type", "format_int_type", "format_array_type"):
        f = m.lookup(pf, meth)
        if f is None:
            res.unsure(f"C8: PyFormatter.{meth} vanished")
            continue
        for n in ast.walk(f.node):
            if isinstance(n, ast.Return) and n.value is not None:
                if isinstance(n.value, ast.Constant):
                    emitted.add(n.value.value)
                else:
                    s = src_of(n.value)
                    emitted.add("List[...]" if "List[" in s else s)
    res.inst(part="py", emitted_types=sorted(emitted))
    bp = m.mod("bitprotolib/bp.py")
    mb = bp.classes.get("MessageBase")
    tj = mb.methods.get("to_json") if mb else None
    if tj is None:
        res.unsure("C8: bp.MessageBase.to_json vanished")
        return res
    dumps = [n for n in ast.walk(tj.node) if isinstance(n, ast.Call) and src_of(n.func) == "json.dumps"]
    res.inst(part="py", function="MessageBase.to_json", dumps=[src_of(d) for d in dumps])
    if len(dumps) != 1:
        res.unsure("C8: to_json does not call json.dumps exactly once")
        return res
    d = dumps[0]
    if not d.args or src_of(d.args[0]) != "self.to_dict()":
        f = Finding("C8", bp.rel, tj.node.lineno, "MessageBase.to_json", src_of(d), "to_json does not serialise to_dict()", tag="to_json:source")
        f.part = "py"
        res.bad(f)
    natively = {"bool", "int", "List[...]", "str", "float"}
    special = emitted - natively
    dflt = next((k.value for k in d.keywords if k.arg == "default"), None)
    handled: Set[str] = set()
    if dflt is not None:
        target = None
        if isinstance(dflt, ast.Name):
            r = m.resolve_name(bp, dflt.id)
            from .pymodel import FuncInfo

            if isinstance(r, FuncInfo):
                target = r.node
        elif isinstance(dflt, ast.Lambda):
            target = dflt
        elif isinstance(dflt, ast.Attribute):
            target = mb.methods.get(dflt.attr).node if mb and dflt.attr in mb.methods else None
        if target is not None:
            t = src_of(target)
            if "bytearray" in t and "list(" in t:
                handled.add("bytearray")
    for ty in sorted(special - handled):
        f = Finding("C8", bp.rel, tj.node.lineno, "MessageBase.to_json", src_of(d), f"generated fields can have the Python type `{ty}`, which json.dumps cannot serialise (no `default=` handler for it): to_json raises TypeError", witness="message M { byte[2] b = 1 }  ->  M().to_json()", tag=f"to_json:{ty}")
        f.part = "py"
        res.bad(f)
    # to_dict uses the generated dict_factory (drops the enum proxy attributes)
    td = mb.methods.get("to_dict") if mb else None
    t = src_of(td.node) if td else ""
    res.inst(part="py", function="MessageBase.to_dict")
    if "asdict(self, dict_factory=getattr(self, 'dict_factory', dict))" not in t:
        f = Finding("C8", bp.rel, td.node.lineno if td else 0, "MessageBase.to_dict", "", "to_dict does not convert with the generated dict_factory: enum proxy attributes leak into the output", tag="to_dict:factory")
        f.part = "py"
        res.bad(f)
    df0 = m.mod("impls/py/renderer.py").classes.get("BlockMessageDictFactory")
    if df0 is not None:
        from .core import enclosing

        for n in ast.walk(df0.node):
            if isinstance(n, ast.Call) and isinstance(n.func, ast.Attribute) and n.func.attr == "push" and n.args and "def dict_factory" in (_fstring_shape(n.args[0]) if isinstance(n.args[0], ast.JoinedStr) else str(getattr(n.args[0], "value", ""))):
                cond = enclosing(n, (ast.If, ast.For, ast.While))
                if cond is None:
                    # an early return before the push makes it conditional as well
                    fn0 = enclosing(n, ast.FunctionDef)
                    pre = [t for t, truth in facts_at(n, fn0)] if fn0 is not None else []
                    if pre:
                        cond = ast.If(test=pre[0], body=[], orelse=[])
                res.inst(part="py", function="BlockMessageDictFactory", conditional=cond is not None)
                if cond is not None:
                    f = Finding("C8", "compiler/bitproto/renderer/impls/py/renderer.py", n.lineno, "BlockMessageDictFactory", src_of(cond.test) if isinstance(cond, ast.If) else "loop", "dict_factory is emitted only for some messages, but dataclasses.asdict applies the TOP-LEVEL object's factory to every nested dataclass: the hidden enum proxy attributes of nested messages leak into to_dict()/to_json()", witness="message Outer { Inner i = 1 }  message Inner { Color c = 1 }: Outer().to_dict() contains _enum_field_proxy__c", tag="dict_factory:conditional")
                    f.part = "py"
                    res.bad(f)
    df = m.mod("impls/py/renderer.py").classes.get("BlockMessageDictFactory")
    sh = _shapes(df.node) if df else []
    res.inst(part="py", function="BlockMessageDictFactory", templates=sh)
    if not any("if not k.startswith('{_enum_field_proxy_prefix}')" in s for s in sh):
        f = Finding("C8", "compiler/bitproto/renderer/impls/py/renderer.py", df.node.lineno if df else 0, "BlockMessageDictFactory", str(sh), "the generated dict_factory does not drop exactly the keys starting with the enum proxy prefix", tag="dict_factory:filter")
        f.part = "py"
        res.bad(f)
    return res
