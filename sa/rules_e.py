"""
D2 op-mode item templates, F5 endian selection, C8 JSON domain (Python),
F3 layout non-interference, F1 balance, F2 children first, F6/F7 names.
"""

from __future__ import annotations

import ast
import re
from typing import Any, Dict, List, Optional, Set, Tuple

from .core import Finding, Inconclusive, Repo, RuleResult, rule, short, src_of
from .guards import facts_at
from .pymodel import get_model
from .rules_b import _fstring_shape

CF = "impls/c/formatter.py"
GF = "impls/go/formatter.py"


def _shapes(fn: ast.AST) -> List[str]:
    return [_fstring_shape(n) for n in ast.walk(fn) if isinstance(n, ast.JoinedStr)]


def _locals(fn: ast.AST) -> Dict[str, str]:
    out: Dict[str, str] = {}
    for n in ast.walk(fn):
        if isinstance(n, ast.Assign) and len(n.targets) == 1 and isinstance(n.targets[0], ast.Name):
            out.setdefault(n.targets[0].id, src_of(n.value))
    return out


def _resolved_returns(fn: ast.AST) -> List[Tuple[str, ast.Return]]:
    """Shapes of the returned templates with local f-string variables inlined."""
    local_tpl: Dict[str, str] = {}
    params = {a.arg for a in fn.args.args} if isinstance(fn, ast.FunctionDef) else set()
    for n in ast.walk(fn):
        if isinstance(n, ast.Assign) and len(n.targets) == 1 and isinstance(n.targets[0], ast.Name) and isinstance(n.value, ast.JoinedStr) and n.targets[0].id not in params:
            local_tpl.setdefault(n.targets[0].id, _fstring_shape(n.value))
    out = []
    for r in ast.walk(fn):
        if isinstance(r, ast.Return) and r.value is not None:
            v = r.value
            if isinstance(v, ast.Name) and v.id in local_tpl:
                shape = local_tpl[v.id]
            elif isinstance(v, ast.JoinedStr):
                shape = _fstring_shape(v)
            else:
                continue
            for _ in range(3):
                for k, t in local_tpl.items():
                    shape = shape.replace("{" + k + "}", t)
            out.append((shape, r))
    return out


ITEMS = [
    # (file, qualname, part, regex over one f-string shape, expected holes, extra local provenance)
    (CF, "CFormatter._format_op_mode_encoder_item_le", "c-le",
     r"^s\[\{(\w+)\}\] \{(\w+)\} \(\(\(unsigned char \*\)&\(\{(\w+)\}\)\)\[\{(\w+)\}\] \{(\w+)\}\) & \{(\w+)\};$",
     ["si", "assign", "chain", "fi", "shift_s", "mask"], {"assign": ["'=' if r == 0 else '|='"], "shift_s": ["self.format_op_mode_smart_shift(shift)"]}),
    (CF, "CFormatter._format_op_mode_decoder_item_le", "c-le",
     r"^\(\(unsigned char \*\)&\(\{(\w+)\}\)\)\[\{(\w+)\}\] \{(\w+)\} \(s\[\{(\w+)\}\] \{(\w+)\}\) & \{(\w+)\};$",
     ["chain", "fi", "assign", "si", "shift_s", "mask"], {"assign": ["'=' if r == 0 else '|='"], "shift_s": ["self.format_op_mode_smart_shift(shift)"]}),
    (CF, "CFormatter._format_op_mode_encoder_item_be", "c-be",
     r"^s\[\{(\w+)\}\] \{(\w+)\} \(\(\{(\w+)\}\)\(\{(\w+)\}\)\{(\w+)\}\) & \{(\w+)\};$",
     ["si", "assign", "unsigned_type", "chain", "total_shift_s", "mask"],
     {"assign": ["'=' if r == 0 else '|='"], "total_shift": ["fi * 8 + shift", "shift + fi * 8", "8 * fi + shift"], "total_shift_s": ["self.format_op_mode_smart_shift(total_shift)"], "unsigned_type": ["self._format_unsigned_chain_type(t)"]}),
    (GF, "GoFormatter.format_op_mode_encoder_item", "go",
     r"^s\[\{(\w+)\}\] \|= \(byte\(\{(\w+)\}\{(\w+)\}\) \{(\w+)\}\) & \{(\w+)\}$",
     ["si", "chain", "bshift", "shift_s", "mask"], {"bshift": ["' >> {0}'.format(fi * 8) if fi > 0 else ''"], "shift_s": ["self.format_op_mode_smart_shift(shift)"]}),
]


@rule("D2", "optimization-mode item templates: every hole has the role the planner computed it for; `=` only at r == 0; conversions placed around the shifts")
def d2(repo: Repo) -> RuleResult:
    res = RuleResult("D2", floor=6)
    m = get_model(repo)

    def bad(part: str, fi, tag: str, msg: str, construct: str = "", witness: str = "") -> None:
        f = Finding("D2", fi.rel, fi.node.lineno, fi.qual, construct, msg, witness=witness or "a multi-byte field at a non-zero bit offset with -O", tag=f"{fi.qual}:{tag}")
        f.part = part
        res.bad(f)

    for relsfx, qual, part, rx, holes, prov in ITEMS:
        try:
            fi = m.func(relsfx, qual)
        except Inconclusive as e:
            res.unsure(f"D2: {e}")
            continue
        params = [a.arg for a in fi.node.args.args]
        if params != ["self", "chain", "t", "si", "fi", "shift", "mask", "r"]:
            res.unsure(f"D2: {qual}: parameter list is {params}")
            continue
        shapes = [sh for sh, _ in _resolved_returns(fi.node)] or _shapes(fi.node)
        hit = None
        others = []
        for s in shapes:
            mm = re.match(rx, s)
            if mm:
                hit = (s, list(mm.groups()))
            else:
                others.append(s)
        res.inst(part=part, function=qual, template=hit[0] if hit else shapes)
        unmasked = [s for s in others if ("& {mask}" not in s) and ("s[{" in s or "{chain}" in s)]
        for s in unmasked:
            r0 = next((r for sh, r in _resolved_returns(fi.node) if sh == s), None)
            conds = sorted(("" if t else "not ") + src_of(e) for e, t in facts_at(r0, fi.node)) if r0 is not None else []
            bad(part, fi, "unmasked", f"under {conds or 'some condition'} the statement `{s}` is emitted without `& mask`: the chunk is not limited to its c bits, so an out-of-range value (or sign bits) reaches the next field's bits or the padding", construct=s, witness="a byte-aligned field whose width is not a multiple of 8 holding an out-of-range value, with -O")
        if hit is None:
            if not unmasked:
                res.unsure(f"D2: {qual}: statement template not in the enumerated form: {shapes}")
            continue
        if [s for s in others if s not in unmasked]:
            res.unsure(f"D2: {qual}: additional statement templates outside the enumerated form: {[s for s in others if s not in unmasked]}")
        got = hit[1]
        if got != holes:
            wrong = [(g, h) for g, h in zip(got, holes) if g != h]
            bad(part, fi, "roles", f"template holes are {got}, the roles require {holes} (e.g. `{wrong[0][0]}` where `{wrong[0][1]}` belongs)", construct=hit[0])
        loc = _locals(fi.node)
        for name, accepted in prov.items():
            if loc.get(name) not in accepted:
                bad(part, fi, f"prov:{name}", f"`{name}` is computed as `{loc.get(name)}`, expected one of {accepted}", construct=str(loc.get(name)), witness="`=` at r != 0 clobbers bits already placed in the byte / a wrong shift direction" if name in ("assign", "shift_s", "total_shift") else "")
    # C big-endian decoder (two templates)
    try:
        fi = m.func(CF, "CFormatter._format_op_mode_decoder_item_be")
        shapes = _shapes(fi.node)
        loc = _locals(fi.node)
        res.inst(part="c-be", function=fi.qual, template=shapes)
        want_byte = "(((unsigned)(s[{si}]){shift_s}) & {mask})"
        want_hi = "{chain} |= ({chain_type})(({unsigned_type}){byte_val} << {fi_shift});"
        want_lo = "{chain} |= ({chain_type}){byte_val};"
        if want_byte not in shapes or want_hi not in shapes or want_lo not in shapes:
            if any("|=" not in s and "{chain} =" in s for s in shapes):
                bad("c-be", fi, "assign", "the big-endian decoder assigns with `=`: bytes decoded earlier are clobbered", construct=str(shapes))
            elif any("{byte_val} << {fi_shift}" in s and "({unsigned_type})" not in s for s in shapes):
                bad("c-be", fi, "widen", "the byte is shifted left before it is widened to the field's unsigned type: for fi_shift >= 32 the shift on `unsigned` is undefined / loses the bits", construct=str(shapes), witness="uint64 field with -O on a big-endian build")
            else:
                res.unsure(f"D2: {fi.qual}: templates not in the enumerated form: {shapes}")
        for name, accepted in {"shift_s": ["self.format_op_mode_smart_shift(shift)"], "fi_shift": ["fi * 8", "8 * fi"], "chain_type": ["self.format_type(t)"], "unsigned_type": ["self._format_unsigned_chain_type(t)"]}.items():
            if loc.get(name) not in accepted:
                bad("c-be", fi, f"prov:{name}", f"`{name}` is computed as `{loc.get(name)}`, expected one of {accepted}", construct=str(loc.get(name)))
        # which template is returned for each fi_shift value; from 32 on the byte must be widened before the shift
        from .rules_d3 import _fold_pred

        rr = _resolved_returns(fi.node)
        for val in (0, 8, 16, 24, 32, 40, 48, 56):
            chosen = None
            for shape, r in rr:
                ok = True
                for e, truth in facts_at(r, fi.node):
                    v = _fold_pred(e, "fi_shift", val)
                    if v is None:
                        v2 = _fold_pred(e, "fi", val // 8)
                        v = v2
                    if v is not None and bool(v) != truth:
                        ok = False
                if ok and chosen is None:
                    chosen = shape
            res.inst(part="c-be", function=fi.qual, fi_shift=val, template=chosen)
            if chosen is None:
                res.unsure(f"D2: {fi.qual}: no template selected for fi_shift = {val}")
                break
            shifted = "<< {fi_shift}" in chosen
            widened = "({unsigned_type})" in chosen.split("<< {fi_shift}")[0] if shifted else False
            if val > 0 and not shifted:
                bad("c-be", fi, f"no-shift:{val}", f"for fi_shift = {val} the decoded byte is not shifted to its position in the field", construct=chosen)
                break
            if val >= 32 and shifted and not widened:
                bad("c-be", fi, "widen-threshold", f"for fi_shift = {val} the 32-bit `unsigned` byte value is shifted left without first being widened to the field's unsigned type: shifting a 32-bit value by {val} is undefined / loses the bits", construct=chosen, witness="uint33 holding 2**32 decodes as 0 with -O on a big-endian build")
                break
    except Inconclusive as e:
        res.unsure(f"D2: {e}")
    # Go decoder
    try:
        fi = m.func(GF, "GoFormatter.format_op_mode_decoder_item")
        shapes = _shapes(fi.node)
        loc = _locals(fi.node)
        res.inst(part="go", function=fi.qual, template=shapes)
        need = ["byte(s[{si}] {shift_s}) & {mask}", "{type_s}({byte})", "{chain} {assign} {data}{bshift}"]
        missing = [x for x in need if x not in shapes]
        if missing:
            if "{chain} {assign} {data}{bshift}" not in shapes and any("{bshift}" in s and "{data}" not in s for s in shapes):
                bad("go", fi, "widen", "the chunk is shifted before it is widened to the field's type", construct=str(shapes), witness="uint16 field: byte(...) << 8 is always 0")
            else:
                res.unsure(f"D2: {fi.qual}: templates not in the enumerated form (missing {missing})")
        for name, accepted in {"shift_s": ["self.format_op_mode_smart_shift(shift)"], "bshift": ["' << {0}'.format(fi * 8) if fi > 0 else ''"], "type_s": ["self.format_type(t)"]}.items():
            if loc.get(name) not in accepted:
                bad("go", fi, f"prov:{name}", f"`{name}` is computed as `{loc.get(name)}`, expected one of {accepted}", construct=str(loc.get(name)))
        # plain '=' only for bool / alias of bool
        for n in ast.walk(fi.node):
            if isinstance(n, ast.Assign) and src_of(n.targets[0]) == "assign" and isinstance(n.value, ast.Constant) and n.value.value == "=":
                conds = {("" if t else "not ") + src_of(e) for e, t in facts_at(n, fi.node)}
                if not (conds & {"isinstance(t, Bool)", "isinstance(alias_t.type, Bool)"}):
                    bad("go", fi, "assign", f"plain `=` is used under {sorted(conds)} (only bool may be assigned, every other type is ORed chunk by chunk)", construct=src_of(n), witness="uint16 field: the second chunk overwrites the first")
    except Inconclusive as e:
        res.unsure(f"D2: {e}")
    # smart shift helper and dispatch on the mode flag
    try:
        ss = m.func("renderer/formatter.py", "Formatter.format_op_mode_smart_shift")
        rets = sorted((tuple(sorted(("" if t else "not ") + src_of(e) for e, t in facts_at(r, ss.node))), src_of(r.value)) for r in ast.walk(ss.node) if isinstance(r, ast.Return) and r.value is not None)
        res.inst(part="planner", function=ss.qual, returns=rets)
        ok = (("n > 0",), "self.format_right_shift(n)") in rets and any(v in ("self.format_left_shift(0 - n)", "self.format_left_shift(-n)") and "n < 0" in c for c, v in rets) and any(v == "''" for _, v in rets)
        if not ok:
            f = Finding("D2", ss.rel, ss.node.lineno, ss.qual, str(rets), "smart shift is not: right shift by n for n > 0, left shift by -n for n < 0, nothing for 0", witness="every chunk whose stream and value offsets differ", tag="smart_shift")
            f.part = "planner"
            res.bad(f)
        for meth, want in (("format_left_shift", "<< {n}"), ("format_right_shift", ">> {n}")):
            fn = m.func("renderer/formatter.py", f"Formatter.{meth}")
            sh = _shapes(fn.node)
            res.inst(part="planner", function=fn.qual, template=sh)
            if sh != [want]:
                f = Finding("D2", fn.rel, fn.node.lineno, fn.qual, str(sh), f"{meth} must render `{want}`", tag=meth)
                f.part = "planner"
                res.bad(f)
        for which in ("encoder", "decoder"):
            fn = m.func(CF, f"CFormatter.format_op_mode_{which}_item")
            t = src_of(fn.node)
            res.inst(part="c", function=fn.qual)
            if f"if self._op_mode_big_endian:\n        return self._format_op_mode_{which}_item_be(chain, t, si, fi, shift, mask, r)" not in t or f"return self._format_op_mode_{which}_item_le(chain, t, si, fi, shift, mask, r)" not in t:
                f = Finding("D2", fn.rel, fn.node.lineno, fn.qual, "", "the item formatter does not select the big-endian template exactly when the mode flag is set, passing the planner tuple unchanged", witness="--endian big output contains byte-pointer statements", tag=f"dispatch:{which}")
                f.part = "c"
                res.bad(f)
        uc = m.func(CF, "CFormatter._format_unsigned_chain_type")
        t = src_of(uc.node)
        res.inst(part="c-be", function=uc.qual)
        if "n = self.get_nbits_of_integer(t)" not in t or "return f'uint{n}_t'" not in t or "return self.format_uint_type(t)" not in t:
            f = Finding("D2", uc.rel, uc.node.lineno, uc.qual, "", "the unsigned working type of a field is not the unsigned integer of the field's storage size", witness="int32 field shifted as a narrower type on big-endian", tag="unsigned_chain_type")
            f.part = "c-be"
            res.bad(f)
    except Inconclusive as e:
        res.unsure(f"D2: {e}")
    return res


# --------------------------------------------------------------------------
# F5 endian selection
# --------------------------------------------------------------------------


@rule("F5", "--endian selects exactly the little- and/or big-endian statement lists, `both` under #ifndef BP_BIG_ENDIAN / #else / #endif")
def f5(repo: Repo) -> RuleResult:
    res = RuleResult("F5", floor=2)
    m = get_model(repo)
    for cname, is_enc in (("BlockMessageEncoderOpMode", True), ("BlockMessageDecoderOpMode", False)):
        try:
            fi = m.func("impls/c/renderer_c.py", f"{cname}._push_body")
        except Inconclusive as e:
            res.unsure(f"F5: {e}")
            continue
        inner = {n.name: n for n in ast.walk(fi.node) if isinstance(n, ast.FunctionDef) and n is not fi.node}
        res.inst(function=fi.qual, inner=sorted(inner))
        if set(inner) != {"le", "be"}:
            res.unsure(f"F5: {fi.qual}: inner le()/be() helpers not found")
            continue
        for nm, want_be in (("le", False), ("be", True)):
            cs = [n for n in ast.walk(inner[nm]) if isinstance(n, ast.Call) and isinstance(n.func, ast.Attribute) and n.func.attr == "format_op_mode_message_endian"]
            ok = len(cs) == 1
            if ok:
                kws = {k.arg: src_of(k.value) for k in cs[0].keywords}
                ok = kws.get("is_encode") == str(is_enc) and kws.get("big_endian") == str(want_be) and cs[0].args and src_of(cs[0].args[0]) == "self.d"
            if not ok:
                res.bad(Finding("F5", fi.rel, inner[nm].lineno, fi.qual, nm, f"{nm}() does not emit the statements of this message with is_encode={is_enc}, big_endian={want_be}", witness="--endian little output contains the big-endian statements (or the encoder the decoder's)", tag=f"{cname}:{nm}"))
        # selection structure at top level of _push_body
        top = [s for s in fi.node.body if isinstance(s, ast.If)]
        seq: List[Tuple[str, str]] = []
        if len(top) == 1:
            cur: Optional[ast.If] = top[0]
            while cur is not None:
                seq.append((src_of(cur.test), " ; ".join(src_of(s) for s in cur.body)))
                if len(cur.orelse) == 1 and isinstance(cur.orelse[0], ast.If):
                    cur = cur.orelse[0]
                else:
                    seq.append(("else", " ; ".join(src_of(s) for s in cur.orelse)))
                    cur = None
        res.inst(function=fi.qual, selection=seq)
        want = [("endian == 'little'", "le()"), ("endian == 'big'", "be()"), ("else", "self.push('#ifndef BP_BIG_ENDIAN') ; le() ; self.push('#else') ; be() ; self.push('#endif')")]
        if seq != want:
            res.bad(Finding("F5", fi.rel, fi.node.lineno, fi.qual, str(seq), "the endian selection is not: little -> le(); big -> be(); both -> #ifndef BP_BIG_ENDIAN le() #else be() #endif", witness="the default output runs the byte-pointer statements on a big-endian host", tag=f"{cname}:selection"))
    # the flag function
    try:
        fe = m.func("impls/c/formatter.py", "CFormatter.format_op_mode_message_endian")
        t = src_of(fe.node)
        res.inst(function=fe.qual)
        if "self._op_mode_big_endian = big_endian" not in t or "if is_encode:\n            return self.format_op_mode_encode_message(message)\n        return self.format_op_mode_decode_message(message)" not in t:
            res.bad(Finding("F5", fe.rel, fe.node.lineno, fe.qual, "", "the mode flag is not set from big_endian before the statements are generated, or encode/decode are exchanged", tag="message_endian"))
    except Inconclusive as e:
        res.unsure(f"F5: {e}")
    # -O entry points
    fm = m.mod("renderer/formatter.py").classes["Formatter"]
    for meth, flag in (("format_op_mode_encode_message", "True"), ("format_op_mode_decode_message", "False")):
        f2 = fm.methods.get(meth)
        t = src_of(f2.node) if f2 else ""
        res.inst(function=f"Formatter.{meth}")
        if f"return self.format_op_mode_endecode_message(message, field_name_chain, {flag}, [0])" not in t:
            res.bad(Finding("F5", "compiler/bitproto/renderer/formatter.py", f2.node.lineno if f2 else 0, f"Formatter.{meth}", "", f"the planner is not started with is_encode={flag} and a fresh bit cursor [0]", witness="the second message of a file starts at the first one's end offset", tag=meth))
    return res


# --------------------------------------------------------------------------
# C8 JSON domain (Python)
# --------------------------------------------------------------------------


@rule("C8", "every Python type a generated field can have is serialisable by MessageBase.to_json")
def c8(repo: Repo) -> RuleResult:
    res = RuleResult("C8", floor=3)
    m = get_model(repo)
    pf = m.cls("PyFormatter", "impls/py/formatter.py")
    emitted: Set[str] = set()
    for meth in ("format_bool_type", "format_byte_type", "format_uint_type", "format_int_type", "format_array_type"):
        f = m.lookup(pf, meth)
        if f is None:
            res.unsure(f"C8: PyFormatter.{meth} vanished")
            continue
        for n in ast.walk(f.node):
            if isinstance(n, ast.Return) and n.value is not None:
                if isinstance(n.value, ast.Constant):
                    emitted.add(n.value.value)
                else:
                    s = src_of(n.value)
                    emitted.add("List[...]" if "List[" in s else s)
    res.inst(part="py", emitted_types=sorted(emitted))
    bp = m.mod("bitprotolib/bp.py")
    mb = bp.classes.get("MessageBase")
    tj = mb.methods.get("to_json") if mb else None
    if tj is None:
        res.unsure("C8: bp.MessageBase.to_json vanished")
        return res
    dumps = [n for n in ast.walk(tj.node) if isinstance(n, ast.Call) and src_of(n.func) == "json.dumps"]
    res.inst(part="py", function="MessageBase.to_json", dumps=[src_of(d) for d in dumps])
    if len(dumps) != 1:
        res.unsure("C8: to_json does not call json.dumps exactly once")
        return res
    d = dumps[0]
    if not d.args or src_of(d.args[0]) != "self.to_dict()":
        f = Finding("C8", bp.rel, tj.node.lineno, "MessageBase.to_json", src_of(d), "to_json does not serialise to_dict()", tag="to_json:source")
        f.part = "py"
        res.bad(f)
    natively = {"bool", "int", "List[...]", "str", "float"}
    special = emitted - natively
    dflt = next((k.value for k in d.keywords if k.arg == "default"), None)
    handled: Set[str] = set()
    if dflt is not None:
        target = None
        if isinstance(dflt, ast.Name):
            r = m.resolve_name(bp, dflt.id)
            from .pymodel import FuncInfo

            if isinstance(r, FuncInfo):
                target = r.node
        elif isinstance(dflt, ast.Lambda):
            target = dflt
        elif isinstance(dflt, ast.Attribute):
            target = mb.methods.get(dflt.attr).node if mb and dflt.attr in mb.methods else None
        if target is not None:
            t = src_of(target)
            if "bytearray" in t and "list(" in t:
                handled.add("bytearray")
    for ty in sorted(special - handled):
        f = Finding("C8", bp.rel, tj.node.lineno, "MessageBase.to_json", src_of(d), f"generated fields can have the Python type `{ty}`, which json.dumps cannot serialise (no `default=` handler for it): to_json raises TypeError", witness="message M { byte[2] b = 1 }  ->  M().to_json()", tag=f"to_json:{ty}")
        f.part = "py"
        res.bad(f)
    # to_dict uses the generated dict_factory (drops the enum proxy attributes)
    td = mb.methods.get("to_dict") if mb else None
    t = src_of(td.node) if td else ""
    res.inst(part="py", function="MessageBase.to_dict")
    if "asdict(self, dict_factory=getattr(self, 'dict_factory', dict))" not in t:
        f = Finding("C8", bp.rel, td.node.lineno if td else 0, "MessageBase.to_dict", "", "to_dict does not convert with the generated dict_factory: enum proxy attributes leak into the output", tag="to_dict:factory")
        f.part = "py"
        res.bad(f)
    df0 = m.mod("impls/py/renderer.py").classes.get("BlockMessageDictFactory")
    if df0 is not None:
        from .core import enclosing

        for n in ast.walk(df0.node):
            if isinstance(n, ast.Call) and isinstance(n.func, ast.Attribute) and n.func.attr == "push" and n.args and "def dict_factory" in (_fstring_shape(n.args[0]) if isinstance(n.args[0], ast.JoinedStr) else str(getattr(n.args[0], "value", ""))):
                cond = enclosing(n, (ast.If, ast.For, ast.While))
                if cond is None:
                    # an early return before the push makes it conditional as well
                    fn0 = enclosing(n, ast.FunctionDef)
                    pre = [t for t, truth in facts_at(n, fn0)] if fn0 is not None else []
                    if pre:
                        cond = ast.If(test=pre[0], body=[], orelse=[])
                res.inst(part="py", function="BlockMessageDictFactory", conditional=cond is not None)
                if cond is not None:
                    f = Finding("C8", "compiler/bitproto/renderer/impls/py/renderer.py", n.lineno, "BlockMessageDictFactory", src_of(cond.test) if isinstance(cond, ast.If) else "loop", "dict_factory is emitted only for some messages, but dataclasses.asdict applies the TOP-LEVEL object's factory to every nested dataclass: the hidden enum proxy attributes of nested messages leak into to_dict()/to_json()", witness="message Outer { Inner i = 1 }  message Inner { Color c = 1 }: Outer().to_dict() contains _enum_field_proxy__c", tag="dict_factory:conditional")
                    f.part = "py"
                    res.bad(f)
    df = m.mod("impls/py/renderer.py").classes.get("BlockMessageDictFactory")
    sh = _shapes(df.node) if df else []
    res.inst(part="py", function="BlockMessageDictFactory", templates=sh)
    if not any("if not k.startswith('{_enum_field_proxy_prefix}')" in s for s in sh):
        f = Finding("C8", "compiler/bitproto/renderer/impls/py/renderer.py", df.node.lineno if df else 0, "BlockMessageDictFactory", str(sh), "the generated dict_factory does not drop exactly the keys starting with the enum proxy prefix", tag="dict_factory:filter")
        f.part = "py"
        res.bad(f)
    return res
