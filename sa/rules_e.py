"""
D2 op-mode item templates, F5 endian selection, C8 JSON domain (Python),
F3 layout non-interference, F1 balance, F2 children first, F6/F7 names.
"""

from __future__ import annotations

import ast
import re
from typing import Any, Dict, List, Optional, Set, Tuple

from .core import Finding, Inconclusive, Repo, RuleResult, rule, short, src_of
from .guards import facts_at
from .pymodel import get_model
from .rules_b import _fstring_shape

CF = "impls/c/formatter.py"
GF = "impls/go/formatter.py"


def _shapes(fn: ast.AST) -> List[str]:
    return [_fstring_shape(n) for n in ast.walk(fn) if isinstance(n, ast.JoinedStr)]


def _locals(fn: ast.AST) -> Dict[str, str]:
    out: Dict[str, str] = {}
    for n in ast.walk(fn):
        if isinstance(n, ast.Assign) and len(n.targets) == 1 and isinstance(n.targets[0], ast.Name):
            out.setdefault(n.targets[0].id, src_of(n.value))
    return out


def _resolved_returns(fn: ast.AST) -> List[Tuple[str, ast.Return]]:
    """Shapes of the returned templates with local f-string variables inlined."""
    local_tpl: Dict[str, str] = {}
    params = {a.arg for a in fn.args.args} if isinstance(fn, ast.FunctionDef) else set()
    for n in ast.walk(fn):
        if isinstance(n, ast.Assign) and len(n.targets) == 1 and isinstance(n.targets[0], ast.Name) and isinstance(n.value, ast.JoinedStr) and n.targets[0].id not in params:
            local_tpl.setdefault(n.targets[0].id, _fstring_shape(n.value))
    out = []
    for r in ast.walk(fn):
        if isinstance(r, ast.Return) and r.value is not None:
            v = r.value
            if isinstance(v, ast.Name) and v.id in local_tpl:
                shape = local_tpl[v.id]
            elif isinstance(v, ast.JoinedStr):
                shape = _fstring_shape(v)
            else:
                continue
            for _ in range(3):
                for k, t in local_tpl.items():
                    shape = shape.replace("{" + k + "}", t)
            out.append((shape, r))
    return out


# --------------------------------------------------------------------------
# D2: the statement each item formatter emits, as a function of the planner's
# outputs.  The formatter is summarised by the path engine (private helpers,
# smart shift and shift renderers inlined), then every point of the planner's
# output domain  r in 0..7, shift in -7..7, fi in 0..7  is folded into the path
# conditions and the template holes; the resulting statement text must be the
# one the layout rule prescribes for that point.
# --------------------------------------------------------------------------

PARAMS7 = ["chain", "t", "si", "fi", "shift", "mask", "r"]

# scenario name -> (class of t, class of t.type or None)
SCENARIOS = [("Uint", None), ("Int", None), ("Byte", None), ("Bool", None), ("Enum", "Uint"), ("Alias", "Uint"), ("Alias", "Int"), ("Alias", "Bool"), ("Alias", "Byte")]


def _scenario_decider(repo: Repo, tcls: str, target: Optional[str], flags: Dict[str, bool]):
    from .normal import V

    m = get_model(repo)

    def cls(n: str):
        try:
            return m.cls(n, "_ast.py")
        except Inconclusive:
            return None

    subjects = {V("t"): cls(tcls)}
    if target is not None:
        subjects[V("t.type")] = cls(target)

    def decide(key: Any) -> Optional[bool]:
        if key[0] == "isinstance" and key[1] in subjects and subjects[key[1]] is not None:
            k = subjects[key[1]]
            res_ = False
            for n in key[2]:
                c = cls(n)
                if c is None:
                    return None
                if m.is_subclass(k, c):
                    res_ = True
            return res_
        if key[0] == "truthy":
            from .normal import show

            nm = show(key[1])
            if nm in flags:
                return flags[nm]
        return None

    return decide


def _sm(n: int) -> str:
    return f">> {n}" if n > 0 else (f"<< {-n}" if n < 0 else "")


def _squash(x: str) -> str:
    return "".join(x.split())


def expected_statements(lang: str, which: str, be: bool, tcls: str, target: Optional[str], r: int, shift: int, fi: int) -> List[str]:
    """The statement(s) the layout rule prescribes (several when more than one
    spelling is correct C / Go)."""
    A = "=" if r == 0 else "|="
    S = _sm(shift)
    is_bool = tcls == "Bool"
    alias_bool = tcls == "Alias" and target == "Bool"
    if lang == "c":
        if not be:
            if which == "encoder":
                return [f"s[{{si}}] {A} (((unsigned char *)&({{chain}}))[{fi}] {S}) & {{mask}};"]
            return [f"((unsigned char *)&({{chain}}))[{fi}] {A} (s[{{si}}] {S}) & {{mask}};"]
        # @U@ stands for an unsigned C integer type; its width is judged separately (needs_width)
        if which == "encoder":
            return [f"s[{{si}}] {A} ((@U@)({{chain}}){_sm(fi * 8 + shift)}) & {{mask}};"]
        bv = f"(((unsigned)(s[{{si}}]){S}) & {{mask}})"
        if fi == 0:
            return [f"{{chain}} |= ({{CT}}){bv};", f"{{chain}} |= ({{CT}})((@U@){bv} << 0);"]
        out = [f"{{chain}} |= ({{CT}})((@U@){bv} << {fi * 8});"]
        if fi * 8 < 32:
            out.append(f"{{chain}} |= ({{CT}})({bv} << {fi * 8});")
        return out
    # go
    if which == "encoder":
        ch = "bool2byte({chain})" if is_bool else ("bool2byte(bool({chain}))" if alias_bool else "{chain}")
        bsh = f" >> {fi * 8}" if fi > 0 else ""
        return [f"s[{{si}}] |= (byte({ch}{bsh}) {S}) & {{mask}}"]
    byte = f"byte(s[{{si}}] {S}) & {{mask}}"
    bsh = f" << {fi * 8}" if fi > 0 else ""
    if is_bool:
        return [f"{{chain}} = byte2bool({byte}){bsh}"]
    if alias_bool:
        return [f"{{chain}} = {{CT}}(byte2bool({byte})){bsh}"]
    return [f"{{chain}} |= {{CT}}({byte}){bsh}"]


UNSIGNED_WIDTH = {"uint8_t": 8, "unsigned char": 8, "uint16_t": 16, "unsigned short": 16, "unsigned": 32, "unsigned int": 32, "uint32_t": 32, "uint64_t": 64, "unsigned long long": 64}


def match_statement(got: str, want: str) -> Optional[Optional[str]]:
    """None: no match.  Otherwise the unsigned type found at @U@ ('' if the
    pattern has none)."""
    g = _squash(got)
    pat = re.escape(_squash(want)).replace(re.escape("@U@"), "(" + "|".join(re.escape(_squash(k)) for k in sorted(UNSIGNED_WIDTH, key=len, reverse=True)) + ")")
    mm = re.fullmatch(pat, g)
    if mm is None:
        return None
    return mm.group(1) if mm.groups() else ""


def needs_width(which: str, storage: int, shift: int, fi: int) -> int:
    """Bits the unsigned working type of a big-endian statement must have:
    the encoder reads value bits [total, total + 8) (all below the storage
    size), the decoder places a byte at bit fi * 8."""
    if which == "encoder":
        total = fi * 8 + shift
        return min(storage, max(total, 0) + 8)
    return min(storage, fi * 8 + 8)


def _item_paths(repo: Repo, cls: str, rel: str, meth: str, tcls: str, target: Optional[str], be: bool):
    from .flows import compiler_flow
    from .normal import V

    m = get_model(repo)
    fi_ = m.func(rel, f"{cls}.{meth}")
    params = [a.arg for a in fi_.node.args.args]
    if len(params) != 8:
        raise Inconclusive(f"{cls}.{meth}: parameter list is {params}")
    flow = compiler_flow(repo, cls, rel, module_funcs=True, primitives=("format_type", "get_nbits_of_integer"), pure=("format_type", "get_nbits_of_integer"), decide=_scenario_decider(repo, tcls, target, {"self._op_mode_big_endian": be}), names={})
    args = {p: V(c) for p, c in zip(params[1:], PARAMS7)}
    args[params[0]] = V("self")
    return fi_, flow.run(fi_.node, args)


def _render(ret: Any, repl) -> Optional[str]:
    from .fold import replace_atoms
    from .normal import show
    from .pyflow import single_atom, tpl_shape

    def hole(h: Any) -> str:
        v = replace_atoms(h, repl)
        cv = v.const_value()
        if cv is not None:
            return str(cv)
        a = single_atom(v)
        if a is not None and a[0] in ("call", "mcall") and a[1] == "_format_unsigned_chain_type":
            return "{U}"
        if a is not None and a[0] in ("call", "mcall") and a[1] == "format_type":
            return "{CT}"
        if a is not None and a[0] == "var" and a[1] in ("si", "chain", "mask"):
            return "{" + a[1] + "}"
        if a is not None and a[0] in ("str", "tpl"):
            inner = tpl_shape(v, hole)
            return inner if inner is not None else "{?" + show(v) + "}"
        return "{?" + show(v) + "}"

    return tpl_shape(ret, hole)


@rule("D2", "optimization-mode item templates: every hole has the role the planner computed it for; `=` only at r == 0; conversions placed around the shifts")
def d2(repo: Repo) -> RuleResult:
    from .fold import by_name, feasible
    from .normal import show

    res = RuleResult("D2", floor=6)
    m = get_model(repo)
    sites = [
        ("c", "c-le", "CFormatter", CF, False),
        ("c", "c-be", "CFormatter", CF, True),
        ("go", "go", "GoFormatter", GF, False),
    ]
    for lang, part, cls, rel, be in sites:
        for which in ("encoder", "decoder"):
            meth = f"format_op_mode_{which}_item"
            reported = False
            for tcls, target in SCENARIOS:
                if reported:
                    break
                # bool chunks are always whole: fi = 0, r arbitrary
                try:
                    fi_, paths = _item_paths(repo, cls, rel, meth, tcls, target, be)
                except Inconclusive as e:
                    res.unsure(f"D2: {cls}.{meth}: {e}")
                    reported = True
                    break
                checked = 0
                leaf_ = target or tcls
                storages = (8,) if leaf_ in ("Bool", "Byte") else (8, 16, 32, 64)
                grid = [(S_, fi, shift, r) for S_ in storages for fi in (range(0, 1) if leaf_ == "Bool" else range(0, S_ // 8)) for shift in range(-7, 8) for r in (0, 1, 3, 7)]
                for S_, fi, shift, r in grid:
                    if reported:
                        break
                    repl = by_name({"r": r, "shift": shift, "fi": fi}, {"get_nbits_of_integer": S_})
                    ok, unfolded = feasible(paths, repl)
                    if unfolded and all("mask" in show(x) for k_u in unfolded for x in k_u[1:] if hasattr(x, "terms")):
                        # a condition on the mask: the planner's masks for this r are 2^(r+c) - 2^r, c = 1 .. 8 - r;
                        # every one of them must give the required statement
                        ok = None
                        want_m = expected_statements(lang, which, be, tcls, target, r, shift, fi)
                        good_paths = None
                        for c_ in range(1, 8 - r + 1):
                            mval = (1 << (r + c_)) - (1 << r)
                            repl_m = by_name({"r": r, "shift": shift, "fi": fi, "mask": mval}, {"get_nbits_of_integer": S_})
                            ok_m, unf_m = feasible(paths, repl_m)
                            if unf_m:
                                ok = None
                                good_paths = None
                                break
                            sm_ = sorted({(_render(p.ret, repl) or "{?}") for p in ok_m if p.done == "return"})
                            if any(match_statement(x_, w_) is not None for x_ in sm_ for w_ in want_m):
                                good_paths = good_paths or ok_m
                                ok = ok or ok_m
                                continue
                            # leaving the mask out is harmless exactly when it keeps every bit the operand can have:
                            # a byte shifted right by s has bits [0, 8 - s), shifted left by s (and stored into a byte)
                            # bits [s, 8); a whole value stored into a byte keeps 8 bits
                            if which == "encoder":
                                if be:
                                    live = 0xFF
                                else:
                                    live = (0xFF >> shift) if shift >= 0 else ((0xFF << -shift) & 0xFF)
                                noop = (mval & live) == live
                                unmasked_want = [w_.replace(" & {mask}", "") for w_ in want_m]
                                if noop and any(match_statement(x_, w_) is not None for x_ in sm_ for w_ in unmasked_want):
                                    ok = ok or ok_m
                                    continue
                            ok = ok_m  # reported below
                            good_paths = None
                            break
                        else:
                            ok = good_paths or ok
                        unfolded = [] if ok is not None else unfolded
                        ok = ok or []
                    if unfolded:
                        res.unsure(f"D2: {cls}.{meth}: condition `{unfolded[0]}` does not fold for (r, shift, fi) = ({r}, {shift}, {fi})")
                        reported = True
                        break
                    ok = [p for p in ok if p.done == "return"]
                    stmts = sorted({(_render(p.ret, repl) or "{?}") for p in ok})
                    want = expected_statements(lang, which, be, tcls, target, r, shift, fi)
                    checked += 1
                    if len(stmts) != 1:
                        res.unsure(f"D2: {cls}.{meth}: {len(stmts)} statements for one planner output ({r}, {shift}, {fi})")
                        reported = True
                        break
                    got = stmts[0]
                    if "{?" in got:
                        res.unsure(f"D2: {cls}.{meth}: statement `{got}` has a hole that is not one of the planner outputs")
                        reported = True
                        break
                    matches = [match_statement(got, w) for w in want]
                    found = [u for u in matches if u is not None]
                    if found:
                        u = found[0]
                        if u and UNSIGNED_WIDTH[[k for k in UNSIGNED_WIDTH if _squash(k) == u][0]] < needs_width(which, S_, shift, fi):
                            need = needs_width(which, S_, shift, fi)
                            f = Finding("D2", fi_.rel, fi_.node.lineno, fi_.qual, got, f"for a {tcls}{'->' + target if target else ''} field stored in {S_} bits and planner output (r={r}, shift={shift}, fi={fi}) the big-endian {which} works on `{u}`, which has fewer than the {need} bits this chunk reaches: the value's upper bits are lost", witness="a field wider than 32 bits at a non byte-aligned position holding a value with bits above 31, -O on a big-endian build", tag=f"{fi_.qual}:{part}:working-type-width")
                            f.part = part
                            res.bad(f)
                            reported = True
                            break
                        continue
                    strip = lambda x: _squash(x).replace("(", "").replace(")", "")
                    strip_u = lambda x: strip(x).replace("@U@", "")
                    if True:
                        if strip(got) not in {strip(w) for w in want} and any("@U@" in w for w in want) and strip(got) in {strip_u(w) for w in want}:
                            need = needs_width(which, S_, shift, fi)
                            f = Finding("D2", fi_.rel, fi_.node.lineno, fi_.qual, got, f"for a {tcls}{'->' + target if target else ''} field stored in {S_} bits and planner output (r={r}, shift={shift}, fi={fi}) the {'big-endian ' if be else ''}{which} emits `{got}` without the unsigned working-type cast of `{want[0]}`: the byte is shifted as an `unsigned` / `int` ({need} bits are needed)", witness="uint64 field: bytes 4..7 are shifted out of a 32-bit int (undefined behaviour / zero)", tag=f"{fi_.qual}:{part}:no-widening")
                            f.part = part
                            res.bad(f)
                            reported = True
                            break
                        if strip(got) in {strip(w) for w in want}:
                            res.unsure(f"D2: {cls}.{meth}: statement `{got}` differs from `{want[0]}` only in parentheses; operator precedence not judged")
                            reported = True
                            break
                        msg, wit = _explain(got, want[0], lang, which, be, r, shift, fi, tcls, target)
                        f = Finding("D2", fi_.rel, fi_.node.lineno, fi_.qual, got, f"for a {tcls}{'->' + target if target else ''} field and planner output (r={r}, shift={shift}, fi={fi}) the {'big-endian ' if be else ''}{which} emits `{got}`; the layout rule requires `{want[0]}`: {msg}", witness=wit, tag=f"{fi_.qual}:{part}:{_tag_of(msg)}")
                        f.part = part
                        res.bad(f)
                        reported = True
                        break
                res.inst(part=part, function=f"{cls}.{meth}", scenario=f"{tcls}{'->' + target if target else ''}", grid_points=checked, paths=len(paths))
    # unsigned working type of the big-endian templates
    try:
        _unsigned_chain(repo, res)
    except Inconclusive as e:
        res.unsure(f"D2: {e}")
    return res


def _tag_of(msg: str) -> str:
    return msg.split(":")[0].split(" (")[0][:40].replace(" ", "-")


def _explain(got: str, want: str, lang: str, which: str, be: bool, r: int, shift: int, fi: int, tcls: str, target: Optional[str]) -> Tuple[str, str]:
    g, w = _squash(got), _squash(want)
    if "&{mask}" not in g:
        return "unmasked (the chunk is not limited to its c bits, so an out-of-range value or sign bits reach the next field's bits or the padding)", "a byte-aligned field whose width is not a multiple of 8 holding an out-of-range value, with -O"
    if ("|=" in w) != ("|=" in g):
        if "|=" in w:
            return "assign (`=` where earlier chunks of the same byte / field must be kept)", "`=` at r != 0 clobbers bits already placed in the byte"
        return "assign (`|=` on the first write of a byte that has no zero baseline)", "decode into a reused struct keeps stale bits"
    if lang == "c" and be and which == "decoder" and "<<" in w and fi * 8 >= 32 and not re.search(r"\((uint64_t|unsignedlonglong)\)\(+\(unsigned\)", g):
        return "widen-threshold (the 32-bit `unsigned` byte value is shifted left without first being widened to the field's unsigned type)", "uint33 holding 2**32 decodes as 0 with -O on a big-endian build"
    if lang == "go" and which == "decoder" and "<<" in w and not g.endswith(w[w.rfind("<<"):]):
        return "widen (the chunk is shifted before it is widened to the field's type)", "uint16 field: byte(...) << 8 is always 0"
    return "roles (a hole or shift does not carry the quantity the planner computed for it)", "a multi-byte field at a non-zero bit offset with -O"


def _unsigned_chain(repo: Repo, res: RuleResult) -> None:
    """CFormatter._format_unsigned_chain_type per class of t: an unsigned C
    type at least as wide as the storage of the leaf integer."""
    from .flows import compiler_flow
    from .normal import V, show
    from .pyflow import single_atom, tpl_shape

    m = get_model(repo)
    uc = m.func(CF, "CFormatter._format_unsigned_chain_type")
    param = uc.node.args.args[1].arg
    wide_ok = {"uint64_t"}
    small_ok = {"uint8_t", "unsigned char", "unsigned", "unsigned int", "uint16_t", "uint32_t", "uint64_t"}
    for tcls, target in SCENARIOS:
        flow = compiler_flow(repo, "CFormatter", CF, primitives=("get_nbits_of_integer", "format_uint_type", "format_int_type"), pure=("get_nbits_of_integer", "format_uint_type", "format_int_type"), decide=_scenario_decider(repo, tcls, target, {}))
        paths = flow.run(uc.node, {"self": V("self"), param: V("t")})
        leaf = "t.type" if target is not None else "t"
        leaf_cls = target or tcls
        vals = []
        for p in paths:
            if p.done != "return" or p.ret is None:
                vals.append("<raise>")
                continue
            vals.append(tpl_shape(p.ret) or "{" + show(p.ret) + "}")
        vals = sorted(set(vals))
        res.inst(part="c-be", function=uc.qual, scenario=f"{tcls}{'->' + target if target else ''}", returns=vals)
        if len(vals) != 1:
            res.unsure(f"D2: {uc.qual}: {len(vals)} results for a {tcls}{'->' + target if target else ''}: {vals}")
            continue
        v = vals[0]
        if leaf_cls in ("Bool", "Byte"):
            ok = v in small_ok
        else:
            ok = v in wide_ok or v in (f"uint{{self.get_nbits_of_integer({leaf})}}_t", f"{{self.format_uint_type({leaf})}}")
        if not ok:
            if "{" not in v or "get_nbits_of_integer" in v or "format_uint_type" in v or "format_int_type" in v:
                f = Finding("D2", uc.rel, uc.node.lineno, uc.qual, v, f"for a {tcls}{'->' + target if target else ''} field the big-endian templates shift the value as `{v}`, which is not the unsigned integer of the field's storage size (leaf `{leaf}`)", witness="an alias of uint64 holding a value with bits above 31 encodes wrongly with -O on a big-endian build", tag=f"unsigned_chain_type:{tcls}{'->' + target if target else ''}")
                f.part = "c-be"
                res.bad(f)
            else:
                res.unsure(f"D2: {uc.qual}: result `{v}` for {tcls} not recognised")


@rule("F5", "--endian selects exactly the little- and/or big-endian statement lists, `both` under #ifndef BP_BIG_ENDIAN / #else / #endif")
def f5(repo: Repo) -> RuleResult:
    from .emit import block_flow, render_hole
    from .flows import compiler_flow
    from .normal import C as K, V, show
    from .pyflow import single_atom, str_of, tpl_shape

    res = RuleResult("F5", floor=2)
    m = get_model(repo)

    def endian_decider(value: str):
        def dec(key: Any) -> Optional[bool]:
            if key[0] in ("eq", "is") and len(key) == 3:
                a_, b_ = key[1], key[2]
                sa_, sb_ = str_of(a_), str_of(b_)
                other = b_ if sa_ is not None else a_
                lit = sa_ if sa_ is not None else sb_
                if lit is not None and "optimization_mode_endian" in show(other):
                    return lit == value
            if key[0] == "in" and "optimization_mode_endian" in show(key[1]):
                return value in key[2]
            return None

        return dec

    def events(p_: Any) -> Optional[List[Tuple[Any, ...]]]:
        out: List[Tuple[Any, ...]] = []
        for e in p_.effects:
            if e.kind == "call" and e.name == "push" and e.args:
                t = tpl_shape(e.args[0], lambda h: "{" + show(h) + "}") or "{?}"
                if t.lstrip().startswith("#"):
                    out.append(("line", t.strip()))
                elif "".join(t.split()) == "memset(m,0,sizeof(*m));":
                    out.append(("zero",))
            elif e.kind == "loop":
                it = single_atom(e.args[0]) if e.args else None
                if it is not None and it[0] == "mcall" and it[1] == "format_op_mode_message_endian":
                    pos = [x for x in it[2][1:] if not (single_atom(x) is not None and single_atom(x)[0] == "kw")]
                    kws = {single_atom(x)[1]: single_atom(x)[2] for x in it[2][1:] if single_atom(x) is not None and single_atom(x)[0] == "kw"}
                    names = ["message", "is_encode", "big_endian"]
                    vals = dict(zip(names, pos))
                    vals.update(kws)
                    ok_body = all(len([c for c in b.effects if c.kind == "call" and c.name == "push"]) == 1 for b in (e.sub or []))
                    out.append(("stmts", show(vals.get("message", K(-1))), vals.get("is_encode", K(-1)).const_value(), vals.get("big_endian", K(-1)).const_value(), ok_body))
                else:
                    return None
        return out

    for cname, is_enc in (("BlockMessageEncoderOpMode", True), ("BlockMessageDecoderOpMode", False)):
        try:
            c = m.cls(cname, "impls/c/renderer_c.py")
            rfn = m.lookup(c, "render")
            if rfn is None:
                raise Inconclusive(f"{cname}.render not found")
        except Inconclusive as e:
            res.unsure(f"F5: {e}")
            continue
        E = int(is_enc)
        # the big-endian decoder statements only OR: they need a zeroed message in front of them
        Z = [] if is_enc else [("zero",)]
        want = {
            "little": [("stmts", "self.d", E, 0, True)],
            "big": Z + [("stmts", "self.d", E, 1, True)],
            "both": [("line", "#ifndef BP_BIG_ENDIAN"), ("stmts", "self.d", E, 0, True), ("line", "#else")] + Z + [("stmts", "self.d", E, 1, True), ("line", "#endif")],
        }
        for value in ("little", "big", "both"):
            try:
                flow = block_flow(repo, cname, "impls/c/renderer_c.py", "CFormatter", "impls/c/formatter.py", {}, keep=("format_op_mode_message_endian", "_get_ctx_or_raise"), pure=("format_op_mode_message_endian", "_get_ctx_or_raise"), inline_props=lambda n_, f_: "optimization_mode_endian" in src_of(f_))
                flow.decide = endian_decider(value)
                paths = [p_ for p_ in flow.run(rfn.node, {"self": V("self")}) if p_.done == "return"]
            except Inconclusive as e:
                res.unsure(f"F5: {cname}: {e}")
                break
            evs = [events(p_) for p_ in paths]
            res.inst(function=f"{cname}.render", endian=value, events=[str(x) for x in evs][:2])
            if len(paths) != 1 or evs[0] is None:
                res.unsure(f"F5: {cname}.render: --endian {value}: {len(paths)} paths / unrecognised loop; selection not decided by the endian value alone")
                break
            got_cmp = list(evs[0])
            if value == "little" and got_cmp[:1] == [("zero",)]:
                got_cmp = got_cmp[1:]  # zeroing in front of the assigning little-endian statements is harmless
            if is_enc:
                got_cmp = [x for x in got_cmp if x != ("zero",)]
            if got_cmp != want[value]:
                got = evs[0]
                res.bad(Finding("F5", m.mod("impls/c/renderer_c.py").rel, c.node.lineno, f"{cname}.render", str(got), f"for --endian {value} the {'encoder' if is_enc else 'decoder'} body is {got}; expected {want[value]} (little -> little-endian statements; big -> big-endian statements; both -> #ifndef BP_BIG_ENDIAN little #else big #endif, each for this message and direction; the OR-only big-endian decoder statements preceded by memset(m, 0, sizeof(*m)))", witness="the default output runs the byte-pointer statements on a big-endian host / --endian little output contains the big-endian statements", tag=f"{cname}:selection"))
                break
    # the flag function: mode flag = big_endian while the statements are generated, restored afterwards
    try:
        fe = m.func("impls/c/formatter.py", "CFormatter.format_op_mode_message_endian")
        params = [a.arg for a in fe.node.args.args]
        ok = len(params) == 4
        why = "parameter list changed"
        if ok:
            for enc in (True, False):
                def dec(key: Any, enc: bool = enc) -> Optional[bool]:
                    if key[0] == "truthy" and show(key[1]) == "is_encode":
                        return enc
                    return None

                flow = compiler_flow(repo, "CFormatter", "impls/c/formatter.py", decide=dec, primitives=("format_op_mode_encode_message", "format_op_mode_decode_message"))
                for p_ in flow.run(fe.node, {params[0]: V("self"), params[1]: V("message"), params[2]: V("is_encode"), params[3]: V("big_endian")}):
                    if p_.done != "return":
                        continue
                    seq = [e for e in p_.effects if (e.kind == "setattr" and e.name.endswith("_op_mode_big_endian")) or (e.kind == "call" and e.name in ("format_op_mode_encode_message", "format_op_mode_decode_message"))]
                    names = [(e.kind, e.name if e.kind == "call" else show(e.args[0])) for e in seq]
                    want_call = "format_op_mode_encode_message" if enc else "format_op_mode_decode_message"
                    if names != [("setattr", "big_endian"), ("call", want_call), ("setattr", "0")]:
                        ok, why = False, f"is_encode={enc}: {names}"
                    a_ = single_atom(p_.ret) if p_.ret is not None else None
                    if a_ is None or a_[0] != "mcall" or a_[1] != want_call or [show(x) for x in a_[2]] != ["self", "message"]:
                        ok, why = False, f"is_encode={enc}: returns {show(p_.ret) if p_.ret is not None else None}"
        res.inst(function=fe.qual, ok=ok)
        if not ok:
            res.bad(Finding("F5", fe.rel, fe.node.lineno, fe.qual, why, f"the mode flag is not set from big_endian while the statements are generated (and cleared afterwards), or encode/decode are exchanged: {why}", witness="--endian big output contains byte-pointer statements", tag="message_endian"))
    except Inconclusive as e:
        res.unsure(f"F5: {e}")
    # -O entry points: planner started with the direction and a fresh bit cursor [0]
    for meth, flag in (("format_op_mode_encode_message", 1), ("format_op_mode_decode_message", 0)):
        try:
            f2 = m.func("renderer/formatter.py", f"Formatter.{meth}")
            flow = compiler_flow(repo, "Formatter", "renderer/formatter.py", primitives=("format_op_mode_endecode_message", "format_op_mode_endecoder_message_var"), pure=("format_op_mode_endecoder_message_var",))
            ok = True
            got = ""
            for p_ in flow.run(f2.node, {"self": V("self"), f2.node.args.args[1].arg: V("message")}):
                a_ = single_atom(p_.ret) if p_.ret is not None else None
                got = show(p_.ret) if p_.ret is not None else "None"
                from .pyflow import bind_call_atom

                callee = m.func("renderer/formatter.py", "Formatter.format_op_mode_endecode_message")
                bound_ = bind_call_atom(a_, [x.arg for x in callee.node.args.args[1:]]) if a_ is not None and a_[0] == "mcall" and a_[1] == "format_op_mode_endecode_message" else None
                if bound_ is None or len(bound_) != 4:
                    ok = False
                    continue
                msg, chain, enc, cur = [bound_[x.arg] for x in callee.node.args.args[1:]]
                ca = single_atom(chain)
                if show(msg) != "message" or enc.const_value() != flag or show(cur) != "(0)" or ca is None or ca[0] != "mcall" or ca[1] != "format_op_mode_endecoder_message_var":
                    ok = False
            res.inst(function=f"Formatter.{meth}", ok=ok)
            if not ok:
                res.bad(Finding("F5", f2.rel, f2.node.lineno, f"Formatter.{meth}", got, f"the planner is not started with is_encode={bool(flag)} and a fresh bit cursor [0]", witness="the second message of a file starts at the first one's end offset", tag=meth))
        except Inconclusive as e:
            res.unsure(f"F5: {e}")
    # every memset the C generator emits clears exactly the object it names
    try:
        from .emit import class_emissions as _cem

        n_ms = 0
        for relsfx_ in ("impls/c/renderer_c.py",):
            for cn_, lines_ in _cem(repo, relsfx_, named="plain").items():
                for l_ in lines_:
                    for mm_ in re.finditer(r"memset\(([^,]+),\s*([^,]+),\s*(.+?)\);", l_):
                        n_ms += 1
                        ptr, val, size = mm_.group(1).strip(), mm_.group(2).strip(), mm_.group(3).strip()
                        ok_ = (ptr == "m" and size == "sizeof(*m)") or (ptr == "s" and size in ("self.message_size_constant_name", "self.message_nbytes", "self.formatter.format_int_value(self.d.nbytes())"))
                        res.inst(part="memset", cls=cn_, call=mm_.group(0), ok=ok_)
                        if val != "0" or not ok_:
                            fd = Finding("F5", m.mod(relsfx_).rel, m.mod(relsfx_).classes[cn_].node.lineno, cn_, mm_.group(0), f"`{mm_.group(0)}` does not clear exactly the object it names (a message structure is sizeof(*m) bytes, a wire buffer BYTES_LENGTH bytes; the two differ: prefixes and padding)", witness="message Ping' { uint8 seq = 1 }: 3 wire bytes, 1 struct byte: decode writes zeros behind the structure", tag=f"{cn_}:memset")
                            fd.part = "memset"
                            res.bad(fd)
        res.inst(part="memset", calls=n_ms)
    except Inconclusive as e:
        res.unsure(f"F5: memset: {e}")
    return res


# --------------------------------------------------------------------------
# C8 JSON domain (Python)
# --------------------------------------------------------------------------


def _is_dumps_of(a: Any, what: Any) -> bool:
    if a is None:
        return False
    if a[0] == "mcall" and a[1] == "dumps" and len(a[2]) >= 2:
        return bool(a[2][1] == what)
    if a[0] == "call" and a[1].split(".")[-1] == "dumps" and a[2]:
        return bool(a[2][0] == what)
    return False


@rule("C8", "every Python type a generated field can have is serialisable by MessageBase.to_json")
def c8(repo: Repo) -> RuleResult:
    from .emit import class_emissions
    from .flows import compiler_flow, py_runtime
    from .normal import V, show
    from .pyflow import single_atom, str_of, tpl_shape

    res = RuleResult("C8", floor=3)
    m = get_model(repo)
    pf = m.cls("PyFormatter", "impls/py/formatter.py")
    emitted: Set[str] = set()
    # the Python annotations base types and arrays are generated with: words of every returned text
    try:
        flow = compiler_flow(repo, "PyFormatter", "impls/py/formatter.py", module_funcs=True, inline=lambda name, fn: not name.startswith("format_"))
        for meth in ("format_bool_type", "format_byte_type", "format_uint_type", "format_int_type", "format_array_type"):
            f = m.lookup(pf, meth)
            if f is None:
                res.unsure(f"C8: PyFormatter.{meth} vanished")
                continue
            for p_ in flow.run(f.node):
                if p_.done != "return" or p_.ret is None:
                    continue
                t_ = tpl_shape(p_.ret, lambda x: " ")
                if t_ is None:
                    res.unsure(f"C8: PyFormatter.{meth} returns `{show(p_.ret)}`: not a text")
                    continue
                emitted |= set(re.findall(r"[A-Za-z_]\w*", t_))
    except Inconclusive as e:
        res.unsure(f"C8: {e}")
    res.inst(part="py", emitted_types=sorted(emitted))
    bp = m.mod("bitprotolib/bp.py")
    L = py_runtime(repo)
    if not L.has("MessageBase.to_json") or not L.has("MessageBase.to_dict"):
        res.unsure("C8: bp.MessageBase.to_json / to_dict vanished")
        return res
    tj = L.func("MessageBase.to_json")
    td = L.func("MessageBase.to_dict")
    fl = L.flow(cls="MessageBase", primitives=("dumps", "asdict", "getattr"))
    try:
        dict_rets = [p_.ret for p_ in fl.run(td) if p_.done == "return"]
        jpaths = [p_ for p_ in fl.run(tj) if p_.done == "return"]
    except Inconclusive as e:
        res.unsure(f"C8: {e}")
        return res
    # to_dict converts with the generated dict_factory (drops the enum proxy attributes)
    res.inst(part="py", function="MessageBase.to_dict", returns=[show(r) if r is not None else "None" for r in dict_rets])
    for r in dict_rets:
        a_ = single_atom(r) if r is not None else None
        ok = a_ is not None and a_[0] == "call" and a_[1] == "asdict" and len(a_[2]) >= 1 and show(a_[2][0]) == "self"
        if ok:
            fac = None
            for x in a_[2][1:]:
                xa = single_atom(x)
                if xa is not None and xa[0] == "kw" and xa[1] == "dict_factory":
                    fac = single_atom(xa[2])
            ok = fac is not None and fac[0] == "call" and fac[1] == "getattr" and len(fac[2]) == 3 and show(fac[2][0]) == "self" and str_of(fac[2][1]) == "dict_factory"
        if not ok:
            f = Finding("C8", bp.rel, td.lineno, "MessageBase.to_dict", show(r) if r is not None else "None", "to_dict does not convert with the generated dict_factory: enum proxy attributes leak into the output", tag="to_dict:factory")
            f.part = "py"
            res.bad(f)
    natively = {"bool", "int", "List", "str", "float"}
    special = emitted - natively
    for p_ in jpaths:
        dumps = [e for e in p_.effects if e.kind == "call" and e.name == "dumps"]
        res.inst(part="py", function="MessageBase.to_json", dumps=[show(e.args[0]) if e.args else "" for e in dumps])
        if len(dumps) != 1:
            res.unsure("C8: a path of to_json does not call json.dumps exactly once")
            continue
        d = dumps[0]
        if not d.args or not any(r is not None and d.args[0] == r for r in dict_rets) or p_.ret is None or not _is_dumps_of(single_atom(p_.ret), d.args[0]):
            f = Finding("C8", bp.rel, tj.lineno, "MessageBase.to_json", show(d.args[0]) if d.args else "", "to_json does not serialise to_dict()", tag="to_json:source")
            f.part = "py"
            res.bad(f)
        handled: Set[str] = set()
        dflt = d.kw.get("default")
        if dflt is not None:
            target = L.funcs.get(show(dflt)) or L.methods.get("MessageBase", {}).get(show(dflt).split(".")[-1])
            if target is None:
                res.unsure(f"C8: json.dumps default handler `{show(dflt)}` is not a function of bp.py")
            else:
                try:
                    o = target.args.args[-1].arg
                    for q in L.flow(primitives=("list",)).run(target):
                        for k_, t_ in q.guards:
                            if k_[0] == "isinstance" and show(k_[1]) == o and t_:
                                ra = single_atom(q.ret) if q.ret is not None else None
                                if q.done == "return" and ra is not None and ra[0] == "call" and ra[1] == "list" and len(ra[2]) == 1 and show(ra[2][0]) == o:
                                    handled |= set(k_[2])
                except Inconclusive as e:
                    res.unsure(f"C8: {e}")
        for ty in sorted(special - handled):
            f = Finding("C8", bp.rel, tj.lineno, "MessageBase.to_json", show(p_.ret) if p_.ret is not None else "", f"generated fields can have the Python type `{ty}`, which json.dumps cannot serialise (no `default=` handler for it): to_json raises TypeError", witness="message M { byte[3] b = 1 }", tag=f"to_json:{ty}")
            f.part = "py"
            res.bad(f)
    # the generated dict_factory
    rel_r = "compiler/bitproto/renderer/impls/py/renderer.py"
    df = m.mod("impls/py/renderer.py").classes.get("BlockMessageDictFactory")
    if df is None:
        res.unsure("C8: BlockMessageDictFactory vanished")
        return res
    try:
        from .emit import block_flow, pushed

        meths = [fi for n_, fi in df.methods.items() if n_ in ("before", "render", "after")]
        def_paths = 0
        all_paths = 0
        lines: List[str] = []
        for fi in meths:
            bflow = block_flow(repo, df.name, "impls/py/renderer.py", "PyFormatter", "impls/py/formatter.py", {})
            for p_ in bflow.run(fi.node, {"self": V("self")}):
                if p_.done == "raise":
                    continue
                ls = [" " * int(r_ or 0) + t_ for r_, t_ in pushed(p_)]
                if fi.name == "before" or any("def dict_factory" in l_ for l_ in ls):
                    all_paths += 1
                    if any(l_.strip().startswith("def dict_factory(") for l_ in ls):
                        def_paths += 1
                        lines = ls
        res.inst(part="py", function="BlockMessageDictFactory", paths=all_paths, emitting=def_paths, templates=lines)
        if def_paths == 0:
            res.unsure("C8: BlockMessageDictFactory emits no `def dict_factory(`")
            return res
        if def_paths != all_paths:
            f = Finding("C8", rel_r, df.node.lineno, "BlockMessageDictFactory", "", "dict_factory is emitted only for some messages, but dataclasses.asdict applies the TOP-LEVEL object's factory to every nested dataclass: the hidden enum proxy attributes of nested messages leak into to_dict()/to_json()", witness="message Outer { Inner i = 1 }  message Inner { Color c = 1 }: Outer().to_dict() contains _enum_field_proxy__c", tag="dict_factory:conditional")
            f.part = "py"
            res.bad(f)
        # the emitted function, parsed: returns the pairs whose key does not start with the proxy prefix
        i0 = next(i for i, l_ in enumerate(lines) if l_.strip().startswith("def dict_factory("))
        body = [l_ for l_ in lines[i0:] if l_.strip()]
        base = len(body[0]) - len(body[0].lstrip())
        text = "\n".join(l_[base:] for l_ in body)
        prefix_used = None
        ok = False
        try:
            fn = ast.parse(text).body[0]
            assert isinstance(fn, ast.FunctionDef) and len(fn.args.args) == 1
            kv = fn.args.args[0].arg
            st = [s_ for s_ in fn.body if not (isinstance(s_, ast.Expr) and isinstance(s_.value, ast.Constant))]
            if len(st) == 1 and isinstance(st[0], ast.Return) and isinstance(st[0].value, (ast.DictComp, ast.Call)):
                v_ = st[0].value
                comp = v_ if isinstance(v_, ast.DictComp) else (v_.args[0] if isinstance(v_.func, ast.Name) and v_.func.id == "dict" and v_.args and isinstance(v_.args[0], (ast.GeneratorExp, ast.ListComp)) else None)
                if comp is not None and len(comp.generators) == 1:
                    g_ = comp.generators[0]
                    tg = g_.target
                    if isinstance(tg, ast.Tuple) and len(tg.elts) == 2 and all(isinstance(e_, ast.Name) for e_ in tg.elts) and isinstance(g_.iter, ast.Name) and g_.iter.id == kv:
                        kn, vn = tg.elts[0].id, tg.elts[1].id
                        if isinstance(comp, ast.DictComp):
                            shape_ok = isinstance(comp.key, ast.Name) and comp.key.id == kn and isinstance(comp.value, ast.Name) and comp.value.id == vn
                        else:
                            shape_ok = isinstance(comp.elt, ast.Tuple) and [getattr(e_, "id", None) for e_ in comp.elt.elts] == [kn, vn]
                        if shape_ok and len(g_.ifs) == 1:
                            c_ = g_.ifs[0]
                            if isinstance(c_, ast.UnaryOp) and isinstance(c_.op, ast.Not) and isinstance(c_.operand, ast.Call) and isinstance(c_.operand.func, ast.Attribute) and c_.operand.func.attr == "startswith" and isinstance(c_.operand.func.value, ast.Name) and c_.operand.func.value.id == kn and len(c_.operand.args) == 1 and isinstance(c_.operand.args[0], ast.Constant):
                                prefix_used = c_.operand.args[0].value
                                ok = True
        except (SyntaxError, AssertionError, StopIteration):
            ok = False
        # the prefix the proxy attributes are generated with
        proxies = set()
        for cn_, ls_ in class_emissions(repo, "impls/py/renderer.py", named=True).items():
            for l_ in ls_:
                mm = re.match(r"^(\w+)\{self\.message_field_name\}: int = field\(", l_)
                if mm:
                    proxies.add(mm.group(1))
        res.inst(part="py", function="BlockMessageDictFactory", filter_prefix=prefix_used, proxy_prefixes=sorted(proxies))
        if not proxies:
            res.unsure("C8: the enum proxy attribute declaration was not found in the generated dataclass fields")
        elif not ok or proxies != {prefix_used}:
            f = Finding("C8", rel_r, df.node.lineno, "BlockMessageDictFactory", text, "the generated dict_factory does not drop exactly the keys starting with the enum proxy prefix", tag="dict_factory:filter")
            f.part = "py"
            res.bad(f)
    except Inconclusive as e:
        res.unsure(f"C8: {e}")
    return res
