"""Lowering of Go function bodies (gomodel AST) to the E6 IR; mirrors
symeval.PyLower."""

from __future__ import annotations

from typing import Any, Dict, List, Optional, Tuple

from .gomodel import Node, go_src
from .normal import C, Poly, V, band, bnot, bor, call, div8, mod8, opaque, piecewise, pow2, shl, show, shr, sshift, trunc8, vmin
from .symeval import Effect

INT_CONVS = {"int", "int8", "int16", "int32", "int64", "uint", "uint16", "uint32", "uint64", "Flag"}


class GoLower:
    def __init__(self, funcs: Dict[str, Node], names: Optional[Dict[str, str]] = None, drop_args: Tuple[str, ...] = ("di", "ctx", "accessor")) -> None:
        self.funcs = funcs
        self.names = names or {}
        self.drop_args = drop_args
        self.notes: List[str] = []

    def name(self, dotted: str) -> Poly:
        return V(self.names.get(dotted, dotted))

    def expr(self, e: Node, env: Dict[str, Poly], depth: int = 0) -> Poly:
        k = e.k
        if k == "int":
            return C(e.v)
        if k == "id":
            if e.name in env:
                return env[e.name]
            if e.name == "true":
                return C(1)
            if e.name == "false":
                return C(0)
            return self.name(e.name)
        if k == "sel":
            d = go_src(e)
            if d in env:
                return env[d]
            return self.name(d)
        if k == "paren":
            return self.expr(e.x, env, depth)
        if k == "un":
            v = self.expr(e.x, env, depth)
            if e.op == "-":
                return -v
            if e.op == "^":
                return bnot(v)
            if e.op == "+":
                return v
            return opaque(go_src(e))
        if k == "bin":
            l = self.expr(e.l, env, depth)
            r = self.expr(e.r, env, depth)
            op = e.op
            if op == "+":
                return l + r
            if op == "-":
                return l - r
            if op == "*":
                return l * r
            if op == "<<":
                return shl(l, r)
            if op == ">>":
                return shr(l, r)
            if op == "/":
                if r.const_value() == 8:
                    self.notes.append(f"{go_src(e)} read as floor division (operands are non-negative cursors)")
                    return div8(l)
                return call("div", l, r)
            if op == "%":
                if r.const_value() == 8:
                    return mod8(l)
                return call("mod", l, r)
            if op == "&":
                return band([l, r])
            if op == "|":
                return bor([l, r])
            return opaque(go_src(e))
        if k == "call":
            return self.call(e, env, depth)
        if k == "conv":
            return self.expr(e.x, env, depth)
        if k == "cond":
            a = self.expr(e.a, env, depth)
            b = self.expr(e.b, env, depth)
            c = e.c
            while c.k == "paren":
                c = c.x
            if c.k == "bin" and c.op in ("<", "<="):
                l = self.expr(c.l, env, depth)
                r = self.expr(c.r, env, depth)
                # (l < r) ? min(l, rest) : min(r, rest)  ==  min(l, r, rest)
                def rest_of(x: Poly, head: Poly):
                    if x == head:
                        return []
                    at = None
                    if len(x.terms) == 1:
                        (m, cf), = x.terms.items()
                        if cf == 1 and len(m) == 1 and m[0][1] == 1 and m[0][0][0] == "min":
                            at = list(m[0][0][1])
                    if at is not None and any(y == head for y in at):
                        return [y for y in at if y != head]
                    return None
                ra, rb = rest_of(a, l), rest_of(b, r)
                if ra is not None and rb is not None and [x.key() for x in ra] == [x.key() for x in rb]:
                    return vmin([l, r] + ra)
            if a == b:
                return a
            return Poly.atom(("ite", go_src(e.c), a, b))
        if k == "index":
            base = go_src(e.x)
            return Poly.atom(("load", self.names.get(base, base), self.expr(e.i, env, depth)))
        return opaque(go_src(e))

    def call(self, e: Node, env: Dict[str, Poly], depth: int) -> Poly:
        f = e.f
        fname = f.name if f.k in ("id", "sel") else None
        if fname is None:
            return opaque(go_src(e))
        if f.k == "id":
            if fname in ("byte", "uint8") and len(e.args) == 1:
                return trunc8(self.expr(e.args[0], env, depth))
            if fname in INT_CONVS and len(e.args) == 1:
                if fname not in ("int",):
                    self.notes.append(f"conversion {fname}(...) erased")
                return self.expr(e.args[0], env, depth)
            if fname in self.funcs and depth < 4:
                return self.inline(self.funcs[fname], [self.expr(a, env, depth) for a in e.args], depth + 1)
        args = [self.expr(a, env, depth) for a in e.args if not (a.k == "id" and a.name in self.drop_args)]
        return call(fname, *args)

    # ---------------------------------------------------------------- inline

    def inline(self, fn: Node, args: List[Poly], depth: int) -> Poly:
        params = [p.name for p in fn.params]
        env = {p: V("$" + p) for p in params}
        out = self._ret_value(fn.body.stmts, env, depth)
        for p, a in zip(params, args):
            out = out.subst("$" + p, a)
        return out

    def _ret_value(self, stmts: List[Node], env: Dict[str, Poly], depth: int) -> Poly:
        env = dict(env)
        branches: List[Tuple[Node, Poly]] = []
        for st in stmts:
            if st.k == "assign" and st.op in (":=", "=") and len(st.lhs) == 1 and st.lhs[0].k == "id":
                env[st.lhs[0].name] = self.expr(st.rhs[0], env, depth)
                continue
            if st.k == "vardecl":
                continue
            if st.k == "return":
                general = self.expr(st.vals[0], env, depth) if st.vals else C(0)
                return self._merge(branches, general, env, depth)
            if st.k == "if":
                cur: Optional[Node] = st
                tail: Optional[List[Node]] = None
                while cur is not None:
                    body = cur.body.stmts
                    if not body or body[-1].k != "return":
                        return opaque("inline:if-without-return")
                    branches.append((cur.cond, self._ret_value(body, env, depth)))
                    if cur.orelse is not None and cur.orelse.k == "if":
                        cur = cur.orelse
                    else:
                        tail = cur.orelse.stmts if cur.orelse is not None else None
                        cur = None
                if tail:
                    return self._merge(branches, self._ret_value(tail, env, depth), env, depth)
                continue
            if st.k == "switch":
                # switch { case c1: return v1 ... default: return d }  /  switch x { case k: ... }
                default: Optional[List[Node]] = None
                ok = True
                for cs in st.cases:
                    if not cs.body or cs.body[-1].k != "return":
                        ok = False
                        break
                    if cs.vals is None:
                        default = cs.body
                        continue
                    if len(cs.vals) != 1:
                        ok = False
                        break
                    cond = cs.vals[0] if st.tag is None else Node(k="bin", op="==", l=st.tag, r=cs.vals[0], line=cs.line)
                    branches.append((cond, self._ret_value(cs.body, env, depth)))
                if not ok:
                    return opaque("inline:switch")
                if default is not None:
                    return self._merge(branches, self._ret_value(default, env, depth), env, depth)
                continue
            return opaque(f"inline:{st.k}")
        return opaque("inline:no-return")

    def _merge(self, branches: List[Tuple[Node, Poly]], general: Poly, env: Dict[str, Poly], depth: int) -> Poly:
        if not branches:
            return general
        tests = []
        for t, v in branches:
            while t.k == "paren":
                t = t.x
            if t.k == "bin" and t.op in ("<", "<=", "==", "!=", ">=", ">"):
                tests.append(((t.op, self.expr(t.l, env, depth), self.expr(t.r, env, depth)), v))
            else:
                tests.append((None, v))
        pw = piecewise(tests, general)
        if pw is not None:
            return pw
        if len(branches) == 2:
            s = self._sign_shape(branches, general, env, depth)
            if s is not None:
                return s
        if len(branches) == 1:
            # min(a, b): if a < b { return a }; return b
            t, v = branches[0]
            if t.k == "bin" and t.op in ("<", "<="):
                a = self.expr(t.l, env, depth)
                b = self.expr(t.r, env, depth)
                if v == a and general == b:
                    return vmin([a, b])
            if t.k == "bin" and t.op in (">", ">="):
                a = self.expr(t.l, env, depth)
                b = self.expr(t.r, env, depth)
                if v == b and general == a:
                    return vmin([a, b])
        remaining = []
        for t, v in branches:
            red = False
            if t.k == "bin" and t.op == "==":
                lhs = self.expr(t.l, env, depth)
                cv = self.expr(t.r, env, depth).const_value()
                if cv is not None and len(lhs.terms) == 1:
                    (m, c), = lhs.terms.items()
                    if c == 1 and len(m) == 1 and m[0][1] == 1 and m[0][0][0] == "var":
                        if general.subst(m[0][0][1], C(cv)) == v.subst(m[0][0][1], C(cv)):
                            red = True
            if not red:
                remaining.append((t, v))
        if not remaining or all(v == general for _, v in remaining):
            return general
        return Poly.atom(("ite", tuple(go_src(t) for t, _ in remaining), tuple(v for _, v in remaining), general))

    def _sign_shape(self, branches: List[Tuple[Node, Poly]], general: Poly, env: Dict[str, Poly], depth: int) -> Optional[Poly]:
        def sign(t: Node) -> Optional[Tuple[Poly, str]]:
            if t.k == "bin" and t.op in (">", "<") and self.expr(t.r, env, depth).const_value() == 0:
                return self.expr(t.l, env, depth), t.op
            return None

        (t1, v1), (t2, v2) = branches
        s1, s2 = sign(t1), sign(t2)
        if s1 is None or s2 is None or s1[0] != s2[0] or {s1[1], s2[1]} != {">", "<"}:
            return None
        k = s1[0]
        pos, neg = (v1, v2) if s1[1] == ">" else (v2, v1)
        if pos == shr(general, k) and neg == shl(general, -k):
            return sshift(general, k)
        return None

    # ------------------------------------------------------------- summarize

    def summarize(self, fn: Node, env: Optional[Dict[str, Poly]] = None) -> Tuple[List[Effect], Dict[str, Poly]]:
        env = dict(env or {})
        effects: List[Effect] = []
        self._block(fn.body.stmts, env, effects, [])
        return effects, env

    def _block(self, stmts: List[Node], env: Dict[str, Poly], effects: List[Effect], guard: List[str]) -> None:
        for st in stmts:
            k = st.k
            if k == "assign" and len(st.lhs) > 1 and len(st.lhs) == len(st.rhs) and st.op in (":=", "=") and all(t.k == "id" for t in st.lhs):
                # parallel assignment: all right sides are evaluated first
                vals = [self.expr(r, env) for r in st.rhs]
                for t, v in zip(st.lhs, vals):
                    env[t.name] = v
            elif k == "assign":
                tgt = st.lhs[0]
                val = self.expr(st.rhs[0], env)
                if st.op in (":=", "="):
                    if tgt.k == "id":
                        env[tgt.name] = val
                    elif tgt.k == "index":
                        base = go_src(tgt.x)
                        effects.append(Effect("store", self.names.get(base, base), [self.expr(tgt.i, env), val], "=", list(guard), st))
                    else:
                        d = go_src(tgt)
                        effects.append(Effect("attr", self.names.get(d, d), [val], "=", list(guard), st))
                        env[d] = val
                else:
                    if tgt.k == "index":
                        base = go_src(tgt.x)
                        effects.append(Effect("store", self.names.get(base, base), [self.expr(tgt.i, env), val], st.op, list(guard), st))
                    else:
                        d = go_src(tgt)
                        effects.append(Effect("attr", self.names.get(d, d), [val], st.op, list(guard), st))
                        if st.op == "+=" and tgt.k == "id":
                            env[tgt.name] = env.get(tgt.name, self.name(tgt.name)) + val
            elif k == "exprstmt" and st.x.k == "call":
                c = st.x
                fname = c.f.name if c.f.k in ("id", "sel") else "?"
                args = [self.expr(a, env) for a in c.args if not (a.k == "id" and a.name in self.drop_args)]
                effects.append(Effect("call", fname, args, "", list(guard), st))
            elif k == "return":
                effects.append(Effect("return", "", [self.expr(v, env) for v in st.vals], "", list(guard), st))
            elif k == "if":
                t = go_src(st.cond)
                self._block(st.body.stmts, dict(env), effects, guard + [t])
                if st.orelse is not None:
                    if st.orelse.k == "if":
                        self._block([st.orelse], dict(env), effects, guard + [f"not ({t})"])
                    else:
                        self._block(st.orelse.stmts, dict(env), effects, guard + [f"not ({t})"])
            elif k == "defer":
                c = st.call
                effects.append(Effect("defer", c.f.name if c.f.k in ("id", "sel") else "?", [], "", list(guard), st))
            elif k in ("for", "forrange", "switch"):
                effects.append(Effect("compound", k, [], "", list(guard), st))
            elif k == "incdec":
                d = go_src(st.x)
                effects.append(Effect("attr", self.names.get(d, d), [C(1)], "+=" if st.op == "++" else "-=", list(guard), st))
            else:
                effects.append(Effect("other", k, [], "", list(guard), st))
