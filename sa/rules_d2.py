"""
D3 extensible processors (Python, Go), C3 prefix width, D7 alias
transparency, D5 size arithmetic.
"""

from __future__ import annotations

import ast
from typing import Any, Dict, List, Optional, Tuple

from .core import Finding, Inconclusive, Repo, RuleResult, rule, short, src_of
from .golower import GoLower
from .gomodel import GO_RT, Node, get_go, go_src
from .normal import C, Poly, V, call, show
from .pymodel import get_model
from .symeval import PyLower

BP = "lib/py/bitprotolib/bp.py"
AST_REL = "compiler/bitproto/_ast.py"


class ProcShape:
    """What an extensible processor does, in order."""

    def __init__(self) -> None:
        self.start_before_prefix: Optional[bool] = None
        self.start_expr: Optional[str] = None
        self.prefix_guard: Optional[str] = None
        self.encode_call: Optional[str] = None
        self.decode_call: Optional[str] = None
        self.decode_guard_ok = False
        self.children: Optional[str] = None
        self.children_after_prefix = False
        self.skip_guard: Optional[str] = None
        self.skip_target: Optional[Poly] = None
        self.skip_cond: Optional[str] = None
        self.skip_assign_ok = False
        self.events: List[str] = []
        self.problems: List[str] = []


# ----------------------------------------------------------------- Python


def py_shape(fn: ast.FunctionDef, capacity_name: str) -> ProcShape:
    sh = ProcShape()
    ver = [0]
    env: Dict[str, Poly] = {}

    def lw() -> PyLower:
        return PyLower({}, names={"ctx.i": f"cur{ver[0]}", "self.capacity": "capacity", "self.nbits": "nbits"})

    def walk(stmts: List[ast.stmt]) -> None:
        for st in stmts:
            if isinstance(st, ast.Expr) and isinstance(st.value, ast.Constant):
                continue
            if isinstance(st, ast.With):
                sh.events.append("with " + src_of(st.items[0].context_expr))
                walk(st.body)
            elif isinstance(st, ast.Assign) and len(st.targets) == 1 and isinstance(st.targets[0], ast.Name):
                nm = st.targets[0].id
                env[nm] = lw().expr(st.value, env)
                if src_of(st.value) == "ctx.i":
                    sh.start_expr = nm
                    sh.start_before_prefix = sh.prefix_guard is None
                    sh.events.append(f"start {nm} = ctx.i")
                elif nm == "accessor":
                    sh.events.append("accessor rewrite")
            elif isinstance(st, ast.If) and "extensible" in src_of(st.test) and any(isinstance(n, ast.Call) and "extensible_ahead" in src_of(n.func) for n in ast.walk(st)):
                sh.prefix_guard = src_of(st.test)
                sh.events.append("prefix")
                for n in ast.walk(st):
                    if isinstance(n, ast.Call) and "extensible_ahead" in src_of(n.func):
                        from .guards import facts_at

                        conds = {("" if t else "not ") + src_of(e) for e, t in facts_at(n, fn) if "is_encode" in src_of(e)}
                        name = src_of(n.func)
                        if "encode_extensible_ahead" in name and "decode" not in name:
                            sh.encode_call = name
                            if conds != {"ctx.is_encode"}:
                                sh.problems.append(f"the prefix is encoded under {sorted(conds)}")
                        else:
                            sh.decode_call = name
                            if conds != {"not ctx.is_encode"}:
                                sh.problems.append(f"the prefix is decoded under {sorted(conds)}")
                            # ahead = decode(...)
                            p = getattr(n, "_parent", None)
                            if isinstance(p, ast.Assign) and isinstance(p.targets[0], ast.Name):
                                env[p.targets[0].id] = V("ahead")
                                sh.decode_guard_ok = True
                ver[0] += 1
            elif isinstance(st, ast.For):
                sh.children = src_of(st.iter)
                sh.children_after_prefix = sh.prefix_guard is not None
                body = " ; ".join(src_of(s) for s in st.body)
                sh.events.append(f"children for {src_of(st.target)} in {src_of(st.iter)}: {body}")
                ver[0] += 1
            elif isinstance(st, ast.If) and any((isinstance(n, ast.Assign) and src_of(n.targets[0]) == "ctx.i") or (isinstance(n, ast.AugAssign) and src_of(n.target) == "ctx.i") for n in ast.walk(st)):
                sh.skip_guard = src_of(st.test)
                sh.events.append("skip")
                inner_env = dict(env)
                for s2 in st.body:
                    if isinstance(s2, ast.Assign) and isinstance(s2.targets[0], ast.Name):
                        inner_env[s2.targets[0].id] = lw().expr(s2.value, inner_env)
                    elif isinstance(s2, ast.If):
                        sh.skip_cond = src_of(s2.test)
                        for s3 in s2.body:
                            if isinstance(s3, ast.Assign) and src_of(s3.targets[0]) == "ctx.i":
                                sh.skip_target = lw().expr(s3.value, inner_env)
                                sh.skip_assign_ok = True
                    elif isinstance(s2, ast.Assign) and src_of(s2.targets[0]) == "ctx.i":
                        sh.skip_target = lw().expr(s2.value, inner_env)
                        sh.skip_assign_ok = True
                        sh.skip_cond = None
                    elif isinstance(s2, ast.AugAssign) and src_of(s2.target) == "ctx.i" and isinstance(s2.op, ast.Add):
                        sh.skip_target = V(f"cur{ver[0]}") + lw().expr(s2.value, inner_env)
                        sh.skip_assign_ok = True
                        sh.skip_cond = None
                # relative form nested in an inner if:  if <cond>: ctx.i += X
                if sh.skip_target is None:
                    for s2 in ast.walk(st):
                        if isinstance(s2, ast.AugAssign) and src_of(s2.target) == "ctx.i" and isinstance(s2.op, ast.Add):
                            sh.skip_target = V(f"cur{ver[0]}") + lw().expr(s2.value, inner_env)
                            sh.skip_assign_ok = True
                            sh.skip_cond = "relative"
            elif isinstance(st, ast.If):
                sh.events.append("if " + src_of(st.test))
                walk(st.body)
            else:
                sh.events.append(src_of(st)[:60])

    walk(fn.body)
    return sh


# ---------------------------------------------------------------------- Go


def go_shape(fn: Node, extra_names: Optional[Dict[str, str]] = None) -> ProcShape:
    sh = ProcShape()
    ver = [0]
    env: Dict[str, Poly] = {}

    def lw() -> GoLower:
        nm = {"ctx.i": f"cur{ver[0]}", "t.capacity": "capacity", "t.nbits": "nbits"}
        nm.update(extra_names or {})
        return GoLower({}, names=nm)

    def has_loop(n: Any) -> bool:
        if isinstance(n, dict):
            if n.get("k") in ("for", "forrange"):
                return True
            return any(has_loop(v) for v in n.values())
        if isinstance(n, list):
            return any(has_loop(v) for v in n)
        return False

    def calls_in(n: Any) -> List[Node]:
        out: List[Node] = []
        if isinstance(n, dict):
            if n.get("k") == "call":
                out.append(n)  # type: ignore[arg-type]
            for v in n.values():
                out.extend(calls_in(v))
        elif isinstance(n, list):
            for v in n:
                out.extend(calls_in(v))
        return out

    def assigns_ctx_i(n: Any) -> bool:
        if isinstance(n, dict):
            if n.get("k") == "assign" and go_src(n["lhs"][0]) == "ctx.i" and n["op"] == "=":
                return True
            return any(assigns_ctx_i(v) for v in n.values())
        if isinstance(n, list):
            return any(assigns_ctx_i(v) for v in n)
        return False

    for st in fn.body.stmts:
        k = st.k
        if k == "assign" and st.op in (":=", "=") and st.lhs[0].k == "id":
            nm = st.lhs[0].name
            env[nm] = lw().expr(st.rhs[0], env)
            if go_src(st.rhs[0]) == "ctx.i":
                sh.start_expr = nm
                sh.start_before_prefix = sh.prefix_guard is None
                sh.events.append(f"start {nm} := ctx.i")
        elif k == "if" and "xtensible" in go_src(st.cond) and any("ExtensibleAhead" in go_src(c.f) for c in calls_in(st)):
            sh.prefix_guard = go_src(st.cond)
            sh.events.append("prefix")
            inner = st.body.stmts
            # if ctx.isEncode { Encode } else { ahead = Decode }
            if len(inner) == 1 and inner[0].k == "if" and go_src(inner[0].cond) in ("ctx.isEncode", "ctx.is_encode") and inner[0].orelse is not None:
                enc = calls_in(inner[0].body)
                dec = calls_in(inner[0].orelse)
                if enc and "Encode" in go_src(enc[0].f) and "ExtensibleAhead" in go_src(enc[0].f) and "Decode" not in go_src(enc[0].f):
                    sh.encode_call = go_src(enc[0].f)
                else:
                    sh.problems.append("the encode branch does not write the prefix")
                if dec and "Decode" in go_src(dec[0].f) and "ExtensibleAhead" in go_src(dec[0].f):
                    sh.decode_call = go_src(dec[0].f)
                    for s2 in inner[0].orelse.stmts:
                        if s2.k == "assign" and s2.lhs[0].k == "id":
                            env[s2.lhs[0].name] = V("ahead")
                            sh.decode_guard_ok = True
                else:
                    sh.problems.append("the decode branch does not read the prefix")
            else:
                sh.problems.append("prefix block is not `if ctx.isEncode { encode } else { ahead = decode }`")
            ver[0] += 1
        elif k in ("for", "forrange"):
            if k == "for":
                sh.children = f"{go_src(st.init.lhs[0])} := {go_src(st.init.rhs[0])}; {go_src(st.cond)}; {go_src(st.post.x)}{st.post.op}" if st.init is not None and st.post is not None and st.post.k == "incdec" else "?"
            else:
                sh.children = "range " + go_src(st.range.x)
            sh.children_after_prefix = sh.prefix_guard is not None
            sh.events.append("children " + sh.children + ": " + " ; ".join(go_src(s.x) if s.k == "exprstmt" else s.k for s in st.body.stmts))
            ver[0] += 1
        elif k == "if" and assigns_ctx_i(st):
            sh.skip_guard = go_src(st.cond)
            sh.events.append("skip")
            inner_env = dict(env)
            for s2 in st.body.stmts:
                if s2.k == "assign" and s2.lhs[0].k == "id":
                    inner_env[s2.lhs[0].name] = lw().expr(s2.rhs[0], inner_env)
                elif s2.k == "if":
                    sh.skip_cond = go_src(s2.cond)
                    for s3 in s2.body.stmts:
                        if s3.k == "assign" and go_src(s3.lhs[0]) == "ctx.i":
                            sh.skip_target = lw().expr(s3.rhs[0], inner_env)
                            sh.skip_assign_ok = True
                elif s2.k == "assign" and go_src(s2.lhs[0]) == "ctx.i":
                    sh.skip_target = lw().expr(s2.rhs[0], inner_env)
                    sh.skip_assign_ok = True
        elif k == "if" and has_loop(st):
            sh.children = "complex: if " + go_src(st.cond)
            sh.children_after_prefix = sh.prefix_guard is not None
            sh.events.append("children " + sh.children)
            ver[0] += 1
        elif k == "if":
            sh.events.append("if " + go_src(st.cond))
        elif k == "exprstmt":
            sh.events.append(go_src(st.x))
        elif k == "defer":
            sh.events.append("defer " + go_src(st.call))
        else:
            sh.events.append(k)
    return sh


# ------------------------------------------------------------------ judge


def _accepted_array_targets(start: Poly, cur_now: Poly) -> List[Tuple[Poly, str]]:
    ahead, cap = V("ahead"), V("capacity")
    consumed = cur_now - start - C(16)
    out = []
    for divname in ("floordiv", "div", "truediv"):
        out.append((start + C(16) + ahead * call(divname, consumed, cap), "start + 16 + ahead * ((consumed - 16) / capacity)"))
    return out


def _all_vars(p: Poly) -> list:
    out = []

    def rec(q: Poly) -> None:
        for m in q.terms:
            for a, _ in m:
                if a[0] == "var":
                    out.append(a)
                for x in a[1:]:
                    if isinstance(x, Poly):
                        rec(x)
                    elif isinstance(x, tuple):
                        for y in x:
                            if isinstance(y, Poly):
                                rec(y)

    rec(p)
    return out


def _conjuncts(s: str) -> set:
    import re as _re

    parts = _re.split(r"\s+and\s+|&&", s)
    out = set()
    for p in parts:
        p = p.strip()
        while p.startswith("(") and p.endswith(")"):
            p = p[1:-1].strip()
        if p.startswith("!"):
            p = "not " + p[1:].strip()
        p = _re.sub(r"^not\s*\((.*)\)$", r"not \1", p)
        out.add(p)
    return out


def judge(res: RuleResult, sh: ProcShape, kind: str, lang: str, file: str, fname: str, line: int, neg_encode: Tuple[str, ...]) -> None:
    part = lang

    def bad(tag: str, msg: str, construct: str = "", witness: str = "") -> None:
        f = Finding("D3", file, line, fname, construct, msg, witness=witness, tag=f"{lang}:{fname}:{tag}")
        f.part = part
        res.bad(f)

    res.inst(part=part, function=fname, kind=kind, events=sh.events, skip_target=show(sh.skip_target) if sh.skip_target is not None else None, skip_cond=sh.skip_cond)
    if sh.start_expr is None and sh.skip_target is not None and sh.prefix_guard is not None:
        sh.start_expr = "<none>"
        sh.start_before_prefix = True
        sh.problems.append("no start position is recorded before the prefix: the skip cannot be an absolute jump to start + (sender size)")
    if sh.start_expr is None or sh.prefix_guard is None or sh.children is None or sh.skip_guard is None or sh.skip_target is None:
        res.unsure(f"D3: {lang}:{fname}: start/prefix/children/skip structure not recognised (shape gate): {sh.events}")
        return
    if not sh.start_before_prefix:
        bad("start-order", "the start position is read after the prefix was processed: the skip target is 16 bits late", witness="any extended sender: fields after the extensible item decode 16 bits off")
    for p in sh.problems:
        bad("prefix", p, witness="encode writes no prefix / decode reads none")
    if sh.encode_call is None or sh.decode_call is None or not sh.decode_guard_ok:
        bad("prefix-calls", "the prefix is not both written on encode and read into `ahead` on decode")
    if not sh.children_after_prefix:
        bad("children-order", "children are processed before the prefix")
    ext = {"self.extensible", "t.extensible", "descriptor.extensible"}
    if sh.prefix_guard not in ext:
        bad("prefix-guard", f"the prefix is processed under `{sh.prefix_guard}`, expected only under `extensible`", construct=sh.prefix_guard or "", witness="a non-extensible message/array gets (or an extensible one loses) the 16-bit prefix")
    conj = _conjuncts(sh.skip_guard or "")
    if not (len(conj) == 2 and (conj & ext) and (conj & {"not ctx.is_encode", "not ctx.isEncode"})):
        bad("skip-guard", f"the skip runs under `{sh.skip_guard}`, expected `extensible and not encoding`", construct=sh.skip_guard or "", witness="the encoder moves its cursor / a traditional decoder skips")
    # skip condition must let every forward move through
    now = V("cur2")
    if sh.skip_cond is not None and sh.skip_cond != "relative":
        c = sh.skip_cond.replace(" ", "")
        if c not in ("ito>=ctx.i", "ito>ctx.i", "ctx.i<=ito", "ctx.i<ito"):
            bad("skip-cond", f"the guard on the jump is `{sh.skip_cond}`; it must let every forward move through (ito >= ctx.i)", construct=sh.skip_cond, witness="an extended sender: the receiver does not skip the extra bits")
    start = V("cur0")
    t = sh.skip_target
    if kind == "message":
        want = start + V("ahead")
        if t != want:
            bad("skip-target", f"message skip target is `{show(t)}`, the layout rule gives `start + ahead` (the sender's own bit size counted from the prefix)", construct=show(t), witness="sender message has one more field than the receiver's: the next field decodes from the wrong position")
    else:
        accepted = _accepted_array_targets(start, now)
        if not any(t == a for a, _ in accepted):
            def all_terms_have_ahead(p: Poly) -> bool:
                return bool(p.terms) and all(any(a == ("var", "ahead") and e == 1 for a, e in m) for m in p.terms)

            if t == start + V("ahead") * V("capacity") or t == start + C(16) + V("ahead") * V("capacity"):
                bad("skip-target", "array skip target multiplies the sender's capacity with the receiver's capacity: an extensible array of sender capacity a occupies 16 + a * element-bits", construct=show(t), witness="sender byte[9]', receiver byte[2]' followed by uint8 f: f decodes from bit 18 instead of bit 88; same schema bool[10]' + uint8: decode jumps to bit 100 of a 5-byte buffer (IndexError)")
            elif all_terms_have_ahead(t - start):
                bad("skip-target", "array skip target is `start + ahead * X` without the 16 prefix bits: the sender's array occupies 16 + a * element-bits counted from the start position", construct=show(t), witness="sender byte[3]', receiver byte[2]' followed by uint8 f: f decodes 16 bits early")
            elif all_terms_have_ahead(t - start - C(16)) and not any(a == ("var", "cur2") for a in _all_vars(t - start - C(16))):
                bad("skip-target", "array skip target is `start + 16 + ahead * X` where X does not come from the bits the own elements just consumed: the receiver's declared element width differs from the sender's when the element type is itself extensible and grew", construct=show(t), witness="S1 -> S2 (array elements, extensible messages, get a field) -> S3 (capacity grows): S1 decoding S3 data lands short")
            elif not all_terms_have_ahead(t - start - C(16)):
                bad("skip-target", "array skip target is not of the form start + 16 + ahead * (bits per element)", construct=show(t), witness="any extended array sender")
            else:
                # anything that is not start + 16 + ahead * X
                res.unsure(f"D3: {lang}:{fname}: array skip target `{show(t)}` is not one of the enumerated forms {sorted({d for _, d in accepted})}")


@rule("D3", "extensible processors: start before prefix, prefix guarded, children in order, skip only on decode to the layout-rule target")
def d3(repo: Repo) -> RuleResult:
    res = RuleResult("D3", floor=4)
    m = get_model(repo)
    bp = m.mod("bitprotolib/bp.py")
    for cname, kind in (("Array", "array"), ("MessageProcessor", "message")):
        c = bp.classes.get(cname)
        if c is None or "process" not in c.methods:
            res.unsure(f"D3: bp.py:{cname}.process vanished")
            continue
        fn = c.methods["process"].node
        sh = py_shape(fn, "self.capacity")
        judge(res, sh, kind, "py", BP, f"{cname}.process", fn.lineno, ("not ctx.is_encode",))
        # children
        if kind == "array":
            ok = sh.children == "range(self.capacity)" and any("di.index_stack_replace(k)" in e and "self.element_processor.process(ctx, di, accessor)" in e for e in sh.events)
            if not ok:
                f = Finding("D3", BP, fn.lineno, f"{cname}.process", str(sh.children), "array elements are not processed as k = 0..capacity-1 with the index stack top set to k before each element", witness="byte[3]: every element reads/writes element 0", tag=f"py:{cname}:children")
                f.part = "py"
                res.bad(f)
            if not any(e.startswith("with di.index_stack_maintain()") for e in sh.events):
                f = Finding("D3", BP, fn.lineno, f"{cname}.process", "", "the array index stack is not pushed/popped around the element loop", tag=f"py:{cname}:index-stack")
                f.part = "py"
                res.bad(f)
        else:
            ok = sh.children == "self.field_processors" and any("field_processor.process(ctx, di, accessor)" in e for e in sh.events)
            if not ok:
                f = Finding("D3", BP, fn.lineno, f"{cname}.process", str(sh.children), "fields are not processed in list order", tag=f"py:{cname}:children")
                f.part = "py"
                res.bad(f)
    mf = bp.classes.get("MessageFieldProcessor")
    if mf is not None and "process" in mf.methods:
        t = src_of(mf.methods["process"].node)
        res.inst(part="py", function="MessageFieldProcessor.process")
        if "di = DataIndexer(field_number=self.field_number)" not in t or "self.type_processor.process(ctx, di, accessor)" not in t:
            f = Finding("D3", BP, mf.methods["process"].node.lineno, "MessageFieldProcessor.process", "", "a field is not processed with an indexer built from its own field number", tag="py:MessageFieldProcessor")
            f.part = "py"
            res.bad(f)
    # Go
    try:
        g = get_go(repo)
        for key, kind in (("Array.Process", "array"), ("MessageProcessor.Process", "message")):
            fn = g.func(key)
            sh = go_shape(fn)
            judge(res, sh, kind, "go", GO_RT, key, fn.line, ("!ctx.isEncode",))
            if kind == "array":
                ok = sh.children == "k := 0; k < t.capacity; k++" and any("di.IndexReplace(k)" in e and "t.elementProcessor.Process(ctx, di, accessor)" in e for e in sh.events)
                if not ok:
                    f = Finding("D3", GO_RT, fn.line, key, str(sh.children), "array elements are not processed as k = 0..capacity-1 with the index stack top set to k", tag="go:Array:children")
                    f.part = "go"
                    res.bad(f)
                if not ("di.IndexStackUp()" in sh.events and "defer di.IndexStackDown()" in sh.events):
                    f = Finding("D3", GO_RT, fn.line, key, "", "the array index stack is not pushed and (deferred) popped", tag="go:Array:index-stack")
                    f.part = "go"
                    res.bad(f)
            else:
                ok = sh.children == "range t.fieldDescriptors" and any("fieldDescriptor.Process(ctx, di, accessor)" in e for e in sh.events)
                if not ok:
                    f = Finding("D3", GO_RT, fn.line, key, str(sh.children), "fields are not processed in list order", tag="go:MessageProcessor:children")
                    f.part = "go"
                    res.bad(f)
        mfp = g.func("MessageFieldProcessor.Process")
        txt = " ; ".join(go_src(s.rhs[0]) if s.k == "assign" else (go_src(s.x) if s.k == "exprstmt" else s.k) for s in mfp.body.stmts)
        res.inst(part="go", function="MessageFieldProcessor.Process", body=txt)
        if "NewDataIndexer(t.fieldNumber)" not in txt or "t.typeProcessor.Process(ctx, di, accessor)" not in txt:
            f = Finding("D3", GO_RT, mfp.line, "MessageFieldProcessor.Process", txt, "a field is not processed with an indexer built from its own field number", tag="go:MessageFieldProcessor")
            f.part = "go"
            res.bad(f)
    except Inconclusive as e:
        res.unsure(f"D3: go: {e}")
    return res


# --------------------------------------------------------------------------
# C3 prefix width / D7 alias transparency
# --------------------------------------------------------------------------


@rule("C3", "the 16-bit prefix: width literal, what is written (nbits / capacity), what is returned, accessor field number")
def c3(repo: Repo) -> RuleResult:
    res = RuleResult("C3", floor=8)
    m = get_model(repo)
    bp = m.mod("bitprotolib/bp.py")
    for cname, data in (("Array", "self.capacity"), ("MessageProcessor", "self.nbits")):
        c = bp.classes.get(cname)
        if c is None:
            res.unsure(f"C3: bp.py:{cname} vanished")
            continue
        for meth, is_enc in (("encode_extensible_ahead", True), ("decode_extensible_ahead", False)):
            f = c.methods.get(meth)
            if f is None:
                res.unsure(f"C3: bp.py:{cname}.{meth} vanished")
                continue
            t = src_of(f.node)
            res.inst(part="py", function=f"{cname}.{meth}")
            calls = [n for n in ast.walk(f.node) if isinstance(n, ast.Call) and src_of(n.func) == "process_base_type"]
            if len(calls) != 1 or src_of(calls[0].args[0]) != "16":
                fd = Finding("C3", BP, f.node.lineno, f"{cname}.{meth}", src_of(calls[0]) if calls else "", "the prefix is not processed as exactly 16 bits", witness="every extensible item shifts all following fields", tag=f"py:{cname}.{meth}:width")
                fd.part = "py"
                res.bad(fd)
            if "DataIndexer(field_number=1)" not in t:
                fd = Finding("C3", BP, f.node.lineno, f"{cname}.{meth}", "", "the scratch accessor is addressed with a field number other than 1 (IntAccessor answers only to 1): the prefix reads/writes as 0", tag=f"py:{cname}.{meth}:field-number")
                fd.part = "py"
                res.bad(fd)
            if is_enc and f"IntAccessor(data={data})" not in t:
                fd = Finding("C3", BP, f.node.lineno, f"{cname}.{meth}", "", f"the encoder does not write {data} as the prefix", witness="receivers skip by a wrong amount", tag=f"py:{cname}.{meth}:data")
                fd.part = "py"
                res.bad(fd)
            if not is_enc and "return accessor.data" not in t:
                fd = Finding("C3", BP, f.node.lineno, f"{cname}.{meth}", "", "the decoder does not return what was read", tag=f"py:{cname}.{meth}:return")
                fd.part = "py"
                res.bad(fd)
    ia = bp.classes.get("IntAccessor")
    if ia is not None:
        t = src_of(ia.node)
        res.inst(part="py", function="IntAccessor")
        if "if di.field_number == 1:\n            self.data |= int(b) << lshift" not in t or "return self.data >> rshift & 255" not in t:
            fd = Finding("C3", BP, ia.node.lineno, "IntAccessor", "", "IntAccessor does not OR chunks into / read bytes from its data for field number 1", tag="py:IntAccessor")
            fd.part = "py"
            res.bad(fd)
    # _ast ahead_nbits
    for cname in ("Array", "Message"):
        c = m.cls(cname, "_ast.py")
        f = c.methods.get("ahead_nbits")
        rets = [n.value.value for n in ast.walk(f.node) if isinstance(n, ast.Return) and isinstance(n.value, ast.Constant)] if f else None
        res.inst(part="ast", function=f"{cname}.ahead_nbits", returns=rets)
        if rets != [16]:
            fd = Finding("C3", AST_REL, f.node.lineno if f else 0, f"{cname}.ahead_nbits", str(rets), "the size arithmetic counts a prefix other than 16 bits", witness="buffer length / following offsets disagree with the runtimes", tag=f"ast:{cname}.ahead_nbits")
            fd.part = "ast"
            res.bad(fd)
    # Go
    try:
        g = get_go(repo)
        for recv, data in (("Array", "t.capacity"), ("MessageProcessor", "t.nbits")):
            for meth, is_enc in (("EncodeExtensibleAhead", True), ("DecodeExtensibleAhead", False)):
                fn = g.func(f"{recv}.{meth}")
                parts = []
                for s in fn.body.stmts:
                    if s.k == "assign":
                        parts.append(f"{go_src(s.lhs[0])} {s.op} {go_src(s.rhs[0])}")
                    elif s.k == "exprstmt":
                        parts.append(go_src(s.x))
                    elif s.k == "return":
                        parts.append("return " + ", ".join(go_src(v) for v in s.vals))
                txt = " ; ".join(parts)
                res.inst(part="go", function=f"{recv}.{meth}", body=txt)
                if "processBaseType(16, ctx, di, accessor)" not in txt:
                    fd = Finding("C3", GO_RT, fn.line, f"{recv}.{meth}", txt, "the prefix is not processed as exactly 16 bits", tag=f"go:{recv}.{meth}:width")
                    fd.part = "go"
                    res.bad(fd)
                if "NewDataIndexer(1)" not in txt:
                    fd = Finding("C3", GO_RT, fn.line, f"{recv}.{meth}", txt, "the scratch accessor is addressed with a field number other than 1", tag=f"go:{recv}.{meth}:field-number")
                    fd.part = "go"
                    res.bad(fd)
                if is_enc and f"data := uint16({data})" not in txt:
                    fd = Finding("C3", GO_RT, fn.line, f"{recv}.{meth}", txt, f"the encoder does not write {data} as the prefix", tag=f"go:{recv}.{meth}:data")
                    fd.part = "go"
                    res.bad(fd)
                if not is_enc and "return accessor.data" not in txt:
                    fd = Finding("C3", GO_RT, fn.line, f"{recv}.{meth}", txt, "the decoder does not return what was read", tag=f"go:{recv}.{meth}:return")
                    fd.part = "go"
                    res.bad(fd)
        for meth, want in (("Uint16Accessor.BpSetByte", "m.data |= (uint16(b) << lshift)"), ("Uint16Accessor.BpGetByte", "byte(m.data >> rshift)")):
            fn = g.func(meth)
            sw = [s for s in fn.body.stmts if s.k == "switch"]
            ok = False
            if sw and go_src(sw[0].tag) == "di.F()":
                for cs in sw[0].cases:
                    if cs.vals and [go_src(v) for v in cs.vals] == ["1"]:
                        body = " ; ".join((f"{go_src(s.lhs[0])} {s.op} {go_src(s.rhs[0])}" if s.k == "assign" else ("return " + go_src(s.vals[0]) if s.k == "return" else s.k)) for s in cs.body)
                        if want.replace("return ", "") in body:
                            ok = True
            res.inst(part="go", function=meth, ok=ok)
            if not ok:
                fd = Finding("C3", GO_RT, fn.line, meth, "", f"the 16-bit scratch accessor does not `{want}` for field number 1", tag=f"go:{meth}")
                fd.part = "go"
                res.bad(fd)
    except Inconclusive as e:
        res.unsure(f"C3: go: {e}")
    return res


@rule("D7", "alias / enum processors only delegate: no cursor change, no prefix")
def d7(repo: Repo) -> RuleResult:
    res = RuleResult("D7", floor=4)
    m = get_model(repo)
    bp = m.mod("bitprotolib/bp.py")
    for cname, want in (("AliasProcessor", "self.to.process(ctx, di, accessor)"), ("EnumProcessor", "self.ut.process(ctx, di, accessor)")):
        c = bp.classes.get(cname)
        f = c.methods.get("process") if c else None
        if f is None:
            res.unsure(f"D7: bp.py:{cname}.process vanished")
            continue
        body = [src_of(s) for s in f.node.body if not (isinstance(s, ast.Expr) and isinstance(s.value, ast.Constant))]
        res.inst(part="py", function=f"{cname}.process", body=body)
        if body != [want]:
            fd = Finding("D7", BP, f.node.lineno, f"{cname}.process", str(body), "the processor does more (or something else) than delegate to its target", witness="introducing an alias changes the encoded bytes", tag=f"py:{cname}")
            fd.part = "py"
            res.bad(fd)
    try:
        g = get_go(repo)
        for key, want in (("AliasProcessor.Process", "t.to.Process(ctx, di, accessor)"), ("EnumProcessor.Process", "t.ut.Process(ctx, di, accessor)")):
            fn = g.func(key)
            body = [go_src(s.x) if s.k == "exprstmt" else s.k for s in fn.body.stmts]
            res.inst(part="go", function=key, body=body)
            if body != [want]:
                fd = Finding("D7", GO_RT, fn.line, key, str(body), "the processor does more (or something else) than delegate to its target", tag=f"go:{key}")
                fd.part = "go"
                res.bad(fd)
    except Inconclusive as e:
        res.unsure(f"D7: go: {e}")
    # Int: bit copy then sign step on decode only
    c = bp.classes.get("Int")
    f = c.methods.get("process") if c else None
    if f is not None:
        body = [src_of(s) for s in f.node.body if not (isinstance(s, ast.Expr) and isinstance(s.value, ast.Constant))]
        res.inst(part="py", function="Int.process", body=body)
        ok = len(body) == 3 and body[0] == "process_base_type(self.nbits, ctx, di, accessor)" and body[1].replace("\n", " ").startswith("if ctx.is_encode:") and "return" in body[1] and body[2] == "accessor.bp_process_int(di)"
        if not ok:
            fd = Finding("D7", BP, f.node.lineno, "Int.process", str(body), "signed integers are not: copy nbits, then (decode only) sign step", witness="negative int5 decodes as positive", tag="py:Int.process")
            fd.part = "py"
            res.bad(fd)
    for cname, n in (("Bool", "1"), ("Byte", "8"), ("Uint", "self.nbits")):
        c = bp.classes.get(cname)
        f = c.methods.get("process") if c else None
        if f is not None:
            body = [src_of(s) for s in f.node.body]
            res.inst(part="py", function=f"{cname}.process", body=body)
            if body != [f"process_base_type({n}, ctx, di, accessor)"]:
                fd = Finding("D7", BP, f.node.lineno, f"{cname}.process", str(body), f"{cname} is not processed as {n} bits", tag=f"py:{cname}.process")
                fd.part = "py"
                res.bad(fd)
    try:
        g = get_go(repo)
        for key, n in (("Bool.Process", "1"), ("Byte.Process", "8"), ("Uint.Process", "t.nbits")):
            fn = g.func(key)
            body = [go_src(s.x) if s.k == "exprstmt" else s.k for s in fn.body.stmts]
            res.inst(part="go", function=key, body=body)
            if body != [f"processBaseType({n}, ctx, di, accessor)"]:
                fd = Finding("D7", GO_RT, fn.line, key, str(body), f"not processed as {n} bits", tag=f"go:{key}")
                fd.part = "go"
                res.bad(fd)
        fn = g.func("Int.Process")
        body = []
        for s in fn.body.stmts:
            if s.k == "exprstmt":
                body.append(go_src(s.x))
            elif s.k == "if":
                body.append(f"if {go_src(s.cond)} {{{' ; '.join(x.k for x in s.body.stmts)}}}")
            else:
                body.append(s.k)
        res.inst(part="go", function="Int.Process", body=body)
        if body != ["processBaseType(t.nbits, ctx, di, accessor)", "if ctx.isEncode {return}", "accessor.BpProcessInt(di)"]:
            fd = Finding("D7", GO_RT, fn.line, "Int.Process", str(body), "signed integers are not: copy nbits, then (decode only) sign step", tag="go:Int.Process")
            fd.part = "go"
            res.bad(fd)
    except Inconclusive as e:
        res.unsure(f"D7: go: {e}")
    return res
