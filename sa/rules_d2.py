"""
D3 extensible processors (Python, Go), EC3 (C, both build variants), C3 the
16-bit prefix, D7 alias / scalar processors.

All three runtimes are summarised by the same path engine (sa.pyflow; Go and C
are first re-encoded as Python ast, sa.node2py) and judged by the same code.
The engine substitutes locals, inlines helpers and enumerates the feasible
paths with their branch literals, so the judgement is made on values:

    prefix event      = a top-level call of the base-type primitive whose data
                        argument is a scratch object (fresh accessor / address
                        of a local)
    children          = the loop effect between prefix and skip
    cursor assignment = a store to ctx.i, with old and new value

Renaming locals, extracting helpers, swapping branches under a negated
condition or replacing an early return by a guarded block all give the same
paths.  A construct that is recognised but has the wrong parameter is a
violation; a construct that is not recognised is reported as inconclusive.
"""

from __future__ import annotations

import ast
from typing import Any, Callable, Dict, List, Optional, Sequence, Tuple

from .core import Finding, Inconclusive, Repo, RuleResult, rule, short, src_of
from .flows import Lang, c_runtime, go_runtime, py_runtime
from .normal import C, Poly, V, call, mod8, pow2, show, shr, trunc8
from .pyflow import Ev, Path, PyFlow, new_parts, single_atom
from .pymodel import get_model

BP = "lib/py/bitprotolib/bp.py"
GO_RT = "lib/go/bitproto.go"
C_RT = "lib/c/bitproto.c"
AST_REL = "compiler/bitproto/_ast.py"


class Site:
    """How one runtime spells the things the judge looks at."""

    def __init__(self, lang: str, rel: str, names: Dict[str, str], base: str, data_idx: int, acc_cls: Optional[str], acc_field: str, di_cls: Optional[str], di_field: str) -> None:
        self.lang, self.rel, self.names, self.base, self.data_idx = lang, rel, names, base, data_idx
        self.acc_cls, self.acc_field, self.di_cls, self.di_field = acc_cls, acc_field, di_cls, di_field


PY = Site("py", BP, {"self.extensible": "extensible", "ctx.is_encode": "is_encode", "self.capacity": "capacity", "self.nbits": "nbits", "ctx.i": "cur"}, "process_base_type", 3, "IntAccessor", "data", "DataIndexer", "field_number")
GO = Site("go", GO_RT, {"t.extensible": "extensible", "ctx.isEncode": "is_encode", "t.capacity": "capacity", "t.nbits": "nbits", "ctx.i": "cur"}, "processBaseType", 3, "Uint16Accessor", "data", "DataIndexer", "fnumber")
CS = Site("c", C_RT, {"descriptor.extensible": "extensible", "ctx.is_encode": "is_encode", "descriptor.cap": "capacity", "descriptor.nbits": "nbits", "ctx.i": "cur"}, "BpEndecodeBaseType", 2, None, "", None, "")

# the generator <-> runtime contract: what the k-th constructor argument of a
# processor means.  Field names are canonicalised to these roles through the
# constructor (dataclass field order / the struct literal of New<T>), so that
# the judges never depend on how a runtime spells its fields.
ROLE_AT = {
    "Array": ["extensible", "capacity", "element_processor"],
    "Int": ["nbits"],
    "Uint": ["nbits"],
    "MessageProcessor": ["extensible", "nbits", "field_processors"],
    "MessageFieldProcessor": ["field_number", "type_processor"],
    "EnumProcessor": ["ut"],
    "AliasProcessor": ["to"],
}


def ctor_fields(L: Lang, cls: str) -> List[Optional[str]]:
    """field the k-th constructor argument is stored in"""
    if L.lang == "py":
        if cls not in L.classes:
            raise Inconclusive(f"py: class {cls} vanished")
        return list(L.classes[cls])
    fn = L.funcs.get("New" + cls)
    if fn is None:
        raise Inconclusive(f"go: constructor New{cls} vanished")
    params = [a.arg for a in fn.args.args]
    out: List[Optional[str]] = [None] * len(params)
    paths = [p for p in L.flow().run(fn) if p.done == "return" and p.ret is not None]
    if len(paths) != 1:
        raise Inconclusive(f"go: New{cls} has {len(paths)} return paths")
    np_ = new_parts(paths[0].ret)
    if np_ is None or np_[0] != cls:
        raise Inconclusive(f"go: New{cls} does not return a {cls} literal")
    for k, pn in enumerate(params):
        fs = [f for f, v in np_[1].items() if v == V(pn)]
        if len(fs) == 1:
            out[k] = fs[0]
    return out


def role_names(L: Lang, site: "Site", cls: Optional[str]) -> Dict[str, str]:
    """site.names + {receiver.field -> role} for the processor class cls"""
    names = dict(site.names)
    if cls is None or cls not in ROLE_AT or site.lang not in ("py", "go"):
        return names
    fields = ctor_fields(L, cls)
    roles = ROLE_AT[cls]
    if len(fields) != len(roles) or any(f is None for f in fields):
        raise Inconclusive(f"{site.lang}: constructor of {cls} stores {fields}, the generator passes {roles}")
    recvs = {m.args.args[0].arg for m in L.methods.get(cls, {}).values() if m.args.args}
    # drop the spelled defaults for this class, the constructor decides
    for r in recvs:
        for k in [k for k in names if k.startswith(r + ".")]:
            del names[k]
        for f, role in zip(fields, roles):
            names[f"{r}.{f}"] = role
    return names


EXT = ("truthy", V("extensible"))
ENC = ("truthy", V("is_encode"))


def truth(p: Path, key: Any) -> Optional[bool]:
    for k, t in p.guards:
        if k == key:
            return t
    return None


def region(p: Path, expr: Poly) -> Optional[set]:
    """Sign region ({lt, eq, gt}) the path condition confines `expr` to."""
    for (tag, d), reg in p.regions.items():
        if d == expr:
            return set(reg)
        if d == -expr:
            return {{"lt": "gt", "gt": "lt", "eq": "eq"}[r] for r in reg}
    return None


def scratch(site: Site, v: Poly) -> Optional[Tuple[str, Optional[Poly], Poly]]:
    """(kind, value it was initialised with, handle through which the result is read)"""
    a = single_atom(v)
    if a is None:
        return None
    if a[0] == "new" and site.acc_cls is not None and a[1] == site.acc_cls:
        fields = dict(zip(a[2], a[3]))
        return ("accessor", fields.get(site.acc_field), Poly.atom(("attr", v, site.acc_field)))
    if a[0] == "ref":
        return ("ref:" + a[2], a[3], Poly.atom(("out", site.base, site.data_idx, a[3])))
    return None


def flow_for(L: Lang, site: Site, key: str, extra_prims: Sequence[str] = ()) -> PyFlow:
    cls = key.split(".")[0] if "." in key else None
    return L.flow(cls, primitives=(site.base,) + tuple(extra_prims), names=role_names(L, site, cls))


class Judged:
    def __init__(self) -> None:
        self.bad: List[Tuple[str, str, str, str]] = []  # (tag, message, construct, witness)
        self.unsure: List[str] = []
        self.info: Dict[str, Any] = {}

    def v(self, tag: str, msg: str, construct: str = "", witness: str = "") -> None:
        if not any(t == tag for t, _, _, _ in self.bad):
            self.bad.append((tag, msg, construct, witness))

    def u(self, msg: str) -> None:
        if msg not in self.unsure:
            self.unsure.append(msg)


def judge_processor(paths: List[Path], site: Site, kind: str, j: Judged, loop_ok: Callable[[Ev], Optional[str]]) -> None:
    size_q = V("capacity") if kind == "array" else V("nbits")
    start = V("cur")
    seen_cases = set()
    jump_paths: List[Tuple[Path, Poly, Poly]] = []
    stay_paths: List[Path] = []
    ahead_atoms: List[Poly] = []
    for p in paths:
        if p.done == "raise":
            continue
        ext, enc = truth(p, EXT), truth(p, ENC)
        tops = list(enumerate(p.effects))
        prefix = [(i, e, scratch(site, e.args[site.data_idx])) for i, e in tops if e.kind == "call" and e.name == site.base and len(e.args) > site.data_idx and scratch(site, e.args[site.data_idx]) is not None]
        loops = [(i, e) for i, e in tops if e.kind == "loop" or (e.kind == "call" and e.name == site.base and not any(i == pi for pi, _, _ in prefix))]
        sets = [(i, e) for i, e in tops if e.kind == "setattr" and e.name == "cur"]
        seen_cases.add((ext, enc))
        if ext is not True:
            # not extensible (or not conditioned on it at all)
            if ext is False:
                if prefix:
                    j.v("prefix-guard", "the 16-bit prefix is processed although the item is not extensible", witness="a non-extensible message/array gets the 16-bit prefix")
                if sets:
                    j.v("skip-guard", "the cursor is moved although the item is not extensible", witness="a traditional decoder skips")
            else:
                if prefix or sets:
                    j.v("prefix-guard", f"the prefix / skip is not conditioned on `extensible` (path under {p.guard_text()})", witness="a non-extensible message/array gets (or an extensible one loses) the 16-bit prefix")
            if not loops and not (site.lang == "c" and kind == "array"):
                j.u("children not recognised on the non-extensible path")  # C arrays: element handling is EC2's / CA2's business
            continue
        # extensible
        if not prefix:
            bypass = [e for _, e in tops if e.kind == "call" and e.name != site.base and any(scratch(site, a) is not None for a in e.args)]
            if bypass:
                j.v("prefix-bypass", f"the 16-bit prefix is moved by `{bypass[0].name}` directly instead of through `{site.base}`: it skips what the base-type primitive does for every value (cursor advance, and on a big-endian build the byte-order staging)", construct=repr(bypass[0]), witness="an extensible array on a big-endian build: the prefix is written in host byte order")
                continue
        if len(prefix) != 1:
            j.v("prefix-calls", f"an extensible item processes {len(prefix)} prefixes on the path under {p.guard_text()} (expected exactly one)", witness="encode writes no prefix / decode reads none")
            continue
        pi, pe, (skind, init, handle) = prefix[0]
        if loops and pi > loops[0][0]:
            j.v("children-order", "children are processed before the prefix")
        if enc is None:
            j.v("prefix", "the prefix direction is not selected by the encode flag", witness="encode writes no prefix / decode reads none")
            continue
        if enc:
            if sets:
                j.v("skip-guard", "the encoder moves its cursor after the children", construct=repr(sets[0][1]), witness="the encoder moves its cursor / a traditional decoder skips")
            continue
        # extensible, decoding
        ahead_atoms.append(handle)
        if not sets:
            stay_paths.append(p)
            continue
        if len(sets) > 1:
            j.u(f"{len(sets)} cursor assignments on one decode path")
            continue
        si, se = sets[0]
        if loops and si < loops[-1][0]:
            j.v("skip-order", "the cursor is moved before the children were processed")
        new = se.args[-1]
        old = se.kw.get("old")
        if old is None:
            j.u("cursor assignment without a recorded old value")
            continue
        # cur = max(cur, target): the conditional forward jump in one expression
        na = single_atom(new)
        if na is not None and na[0] in ("max", "call") and (na[0] == "max" or na[1] == "max"):
            margs = list(na[1]) if na[0] == "max" else list(na[2])
            if len(margs) == 2 and any(x == old for x in margs):
                tgt = margs[0] if margs[1] == old else margs[1]
                p.regions[("max", tgt - old)] = {"gt", "eq"}
                # the complementary case (target behind the cursor) leaves the cursor where it is
                q = p.clone()
                q.regions = dict(p.regions)
                q.regions[("max", tgt - old)] = {"lt", "eq"}
                q.effects = [e for e in p.effects if e is not se]
                stay_paths.append(q)
                new = tgt
        jump_paths.append((p, new, old))
    if (True, True) not in seen_cases or (True, False) not in seen_cases:
        if not j.bad:
            j.u(f"extensible encode / decode paths not both found (cases {sorted(map(str, seen_cases))})")
        return
    if not jump_paths:
        j.v("skip-target", "an extensible item never moves the cursor when decoding: the bits a newer sender appended are not skipped", witness="sender message has one more field than the receiver's: the next field decodes from the wrong position")
        return
    ahead = ahead_atoms[0]
    A = V("ahead")
    NOW = V("now")
    a_atom = single_atom(ahead)

    def norm(new: Poly, old: Poly) -> Poly:
        t = _replace_atom(new, a_atom, A) if a_atom is not None else new
        now_atom = single_atom(old)
        return _replace_atom(t, now_atom, NOW) if now_atom is not None and old != start else t

    targets = {show(norm(n, o)): (n, o) for _, n, o in jump_paths}
    if len(targets) != 1:
        j.u(f"several different skip targets: {sorted(targets)}")
        return
    (new, old), = targets.values()
    t = norm(new, old)
    j.info["skip_target"] = show(t)
    if any(o == start for _, _, o in jump_paths):
        j.v("start-order", "the cursor has not advanced between the start of the item and the skip (children not processed through this cursor)")
        return
    # guard: every forward move must pass
    for p, n_, o_ in jump_paths:
        reg = region(p, n_ - o_)
        j.info.setdefault("jump_regions", []).append(sorted(reg) if reg else None)
    deltas = [n_ - o_ for _, n_, o_ in jump_paths]
    for p in stay_paths:
        reg = None
        for d in deltas:
            reg = reg or region(p, d)
        if reg is None:
            # does the path compare anything that depends on the prefix it read?
            aa = single_atom(ahead_atoms[0]) if ahead_atoms else None
            looks = False
            for k_, _t in p.guards:
                for x in k_[1:]:
                    if hasattr(x, "terms") and aa is not None and aa in _all_atoms(x):
                        looks = True
            if not looks and jump_paths:
                j.v("skip-bypass", f"a decode path of an extensible item returns without ever comparing the sender's size with the cursor (path under {p.guard_text()}): on it the bits a newer sender appended are never skipped", construct=" and ".join(p.guard_text()), witness="sender uint8[5]', receiver uint8[3]' followed by another field: the next field decodes from the sender's extra elements")
            else:
                j.u(f"a decode path of an extensible item leaves the cursor alone under {p.guard_text()}, not conditioned on target vs cursor")
        elif "gt" in reg:
            j.v("skip-cond", f"the guard on the jump lets a forward move (target > cursor) fall through without jumping (path under {p.guard_text()})", construct=" and ".join(p.guard_text()), witness="an extended sender: the receiver does not skip the extra bits")
    # target
    if kind == "message":
        want = start + A
        if t != want:
            if A not in [Poly.atom(a) for a in _all_atoms(t)]:
                j.v("skip-target", f"message skip target is `{show(t)}`: it does not depend on the prefix that was read", construct=show(t), witness="sender message has one more field than the receiver's")
            elif _is_start_late(t, A):
                j.v("start-order", "the start position is read after the prefix was processed: the skip target is 16 bits late", construct=show(t), witness="any extended sender: fields after the extensible item decode 16 bits off")
            else:
                j.v("skip-target", f"message skip target is `{show(t)}`, the layout rule gives `start + ahead` (the sender's own bit size counted from the prefix)", construct=show(t), witness="sender message has one more field than the receiver's: the next field decodes from the wrong position")
    else:
        cap = V("capacity")
        consumed = NOW - start - C(16)
        accepted = [start + C(16) + A * call(dv, consumed, cap) for dv in ("floordiv", "truediv", "div", "int_truediv")]
        if not any(t == a for a in accepted):
            def all_terms_have_ahead(pp: Poly) -> bool:
                return bool(pp.terms) and all(any(a == ("var", "ahead") and e == 1 for a, e in m) for m in pp.terms)

            rest = t - start
            if t == start + A * cap or t == start + C(16) + A * cap:
                j.v("skip-target", "array skip target multiplies the sender's capacity with the receiver's capacity: an extensible array of sender capacity a occupies 16 + a * element-bits", construct=show(t), witness="sender byte[9]', receiver byte[2]' followed by uint8 f: f decodes from bit 18 instead of bit 88")
            elif _is_start_late(t, A):
                j.v("start-order", "the start position is read after the prefix was processed: the skip target is 16 bits late", construct=show(t))
            elif all_terms_have_ahead(rest):
                j.v("skip-target", "array skip target is `start + ahead * X` without the 16 prefix bits: the sender's array occupies 16 + a * element-bits counted from the start position", construct=show(t), witness="sender byte[3]', receiver byte[2]' followed by uint8 f: f decodes 16 bits early")
            elif all_terms_have_ahead(rest - C(16)) and ("var", "now") not in _all_atoms(rest - C(16)):
                j.v("skip-target", "array skip target is `start + 16 + ahead * X` where X does not come from the bits the own elements just consumed: the receiver's declared element width differs from the sender's when the element type is itself extensible and grew", construct=show(t), witness="S1 -> S2 (array elements, extensible messages, get a field) -> S3 (capacity grows): S1 decoding S3 data lands short")
            elif not all_terms_have_ahead(rest - C(16)):
                j.v("skip-target", "array skip target is not of the form start + 16 + ahead * (bits per element)", construct=show(t), witness="any extended array sender")
            else:
                j.u(f"array skip target `{show(t)}` is not one of the enumerated forms")


def _replace_atom(p: Poly, atom: Any, by: Poly) -> Poly:
    """Replace every occurrence of `atom` (also nested inside other atoms)."""
    from .normal import rebuild

    out = Poly.const(0)
    for m, c in p.terms.items():
        term = Poly.const(c)
        for a, e in m:
            if a == atom:
                pa = by
            else:
                new: List[Any] = [a[0]]
                for x in a[1:]:
                    if isinstance(x, Poly):
                        new.append(_replace_atom(x, atom, by))
                    elif isinstance(x, tuple):
                        new.append(tuple(_replace_atom(y, atom, by) if isinstance(y, Poly) else y for y in x))
                    else:
                        new.append(x)
                pa = rebuild(tuple(new))
            for _ in range(e):
                term = term * pa
        out = out + term
    return out


def _all_atoms(p: Poly) -> list:
    out = []

    def rec(q: Poly) -> None:
        for m in q.terms:
            for a, _ in m:
                out.append(a)
                for x in a[1:]:
                    if isinstance(x, Poly):
                        rec(x)
                    elif isinstance(x, tuple):
                        for y in x:
                            if isinstance(y, Poly):
                                rec(y)

    rec(p)
    return out


def _is_start_late(t: Poly, A: Poly) -> bool:
    """The target is built from a cursor value read after the prefix (cur#1)
    instead of the entry value."""
    names = {a[1] for a in _all_atoms(t) if a[0] == "var"}
    return "cur" not in names and any(n.startswith("cur#") for n in names)


# ------------------------------------------------------------------ prefix (C3)


def judge_prefix(paths: List[Path], site: Site, kind: str, j: Judged) -> None:
    size_q = V("capacity") if kind == "array" else V("nbits")
    n = 0
    for p in paths:
        if truth(p, EXT) is not True:
            continue
        enc = truth(p, ENC)
        for e in p.effects:
            if not (e.kind == "call" and e.name == site.base and len(e.args) > site.data_idx):
                continue
            sc = scratch(site, e.args[site.data_idx])
            if sc is None:
                continue
            n += 1
            skind, init, handle = sc
            if e.args[0] != C(16):
                j.v("width", f"the prefix is processed as `{show(e.args[0])}` bits, not 16", construct=show(e.args[0]), witness="every extensible item shifts all following fields")
            if skind.startswith("ref:") and skind != "ref:uint16_t":
                j.v("width", f"the prefix is staged in a `{skind[4:]}` variable, not uint16_t", witness="big-endian staging reverses the wrong number of bytes")
            if site.di_cls is not None:
                di = new_parts(e.args[2])
                if di is None or di[0] != site.di_cls:
                    j.u("prefix indexer is not a fresh DataIndexer")
                elif di[1].get(site.di_field) != C(1):
                    j.v("field-number", f"the scratch accessor is addressed with field number `{show(di[1].get(site.di_field)) if di[1].get(site.di_field) is not None else None}` (the scratch accessor answers only to 1): the prefix reads/writes as 0", witness="every prefix is 0")
            if enc is True:
                if init is None or init != size_q:
                    j.v("data", f"the encoder writes `{show(init) if init is not None else 'nothing'}` as the prefix, expected the item's {'capacity' if kind == 'array' else 'bit size'}", construct=show(init) if init is not None else "", witness="receivers skip by a wrong amount")
            elif enc is False:
                if init is not None and init != C(0):
                    j.v("return", f"the decoder reads the prefix into a variable initialised with `{show(init)}` (chunks are OR-ed in: it must start at 0)", construct=show(init))
    j.info["prefix_events"] = n
    if n == 0:
        j.u("no prefix event found on any extensible path")


# ------------------------------------------------------------------- children


def _calls(p: Path) -> List[Ev]:
    return [e for e in p.effects if e.kind == "call"]


def loop_array_py(site: Site) -> Callable[[Ev], Optional[str]]:
    def ok(lp: Ev) -> Optional[str]:
        return None

    return ok


def check_children(paths: List[Path], site: Site, kind: str, j: Judged) -> None:
    """language-specific: how children are visited"""
    lang = site.lang
    for p in paths:
        if p.done == "raise":
            continue
        loops = [e for e in p.effects if e.kind == "loop"]
        if lang == "c" and kind == "array":
            return  # element dispatch incl. the batch path is judged by EC2 / CA2
        if len(loops) != 1:
            j.u(f"{len(loops)} loops on a processor path (expected the one child loop)")
            return
        lp = loops[0]
        it = lp.args[0] if lp.args else None
        bodies: List[Path] = lp.sub or []
        if kind == "array":
            if it != call("range", V("capacity")):
                a = single_atom(it) if it is not None else None
                if a is not None and a[0] == "call" and a[1] == "range":
                    j.v("children", f"array elements are visited for `{show(it)}`, not k = 0..capacity-1", construct=show(it), witness="byte[3]: an element is skipped / one too many is processed")
                else:
                    j.u(f"array element loop iterates `{show(it) if it is not None else None}`")
                return
            for b in bodies:
                cs = _calls(b)
                repl = [c for c in cs if c.name in ("index_stack_replace", "IndexReplace")]
                proc = [c for c in cs if c.name in ("process", "Process")]
                if len(proc) != 1 or len(repl) != 1:
                    j.v("children", "array elements are not processed as: set the index stack top to k, then process the element once", construct=str(cs), witness="byte[3]: every element reads/writes element 0")
                    return
                if cs.index(repl[0]) > cs.index(proc[0]) or repl[0].args[:1] != [V("k")] and (not repl[0].args or single_atom(repl[0].args[0]) is None or single_atom(repl[0].args[0])[0] != "var"):
                    j.v("children", "the index stack top is not set to the loop counter before the element is processed", construct=str(cs), witness="byte[3]: every element reads/writes element 0")
                    return
                lv = _loop_var(lp)
                if lv is not None and repl[0].args and repl[0].args[0] != V(lv):
                    j.v("children", f"the index stack top is set to `{show(repl[0].args[0])}`, not the loop counter", construct=str(cs), witness="byte[3]: every element reads/writes element 0")
                    return
                rv = proc[0].recv
                if rv is None or show(rv) != "element_processor":
                    j.u(f"element processor receiver is `{show(rv) if rv is not None else None}`")
            # index stack push / pop around the loop
            names = [e.name for e in p.effects]
            if lang == "py":
                ent = [i for i, e in enumerate(p.effects) if e.kind == "enter" and "index_stack_maintain" in e.name]
                ext = [i for i, e in enumerate(p.effects) if e.kind == "exit" and "index_stack_maintain" in e.name]
                li = p.effects.index(lp)
                cm_form = bool(ent and ext and ent[0] < li < ext[-1])
                # explicit form: index_stack_up() ... loop ... index_stack_down() in a finally block
                ups = [i for i, e in enumerate(p.effects) if e.kind == "call" and e.name == "index_stack_up"]
                downs = [i for i, e in enumerate(p.effects) if e.kind == "call" and e.name == "index_stack_down"]

                def in_finally(node: Any) -> bool:
                    from .core import parent as _par

                    q_ = node
                    while q_ is not None:
                        pp = _par(q_)
                        if isinstance(pp, ast.Try) and any(q_ is x for x in pp.finalbody):
                            return True
                        q_ = pp
                    return False

                explicit_form = bool(ups and downs and ups[0] < li < downs[-1] and in_finally(p.effects[downs[-1]].node))
                if not (cm_form or explicit_form):
                    j.v("index-stack", "the array index stack is not pushed/popped around the element loop", witness="nested arrays address the wrong element")
            elif lang == "go":
                li = p.effects.index(lp)
                up = [i for i, e in enumerate(p.effects) if e.kind == "call" and e.name == "IndexStackUp"]
                down = [i for i, e in enumerate(p.effects) if e.kind == "call" and e.name in ("IndexStackDown__deferred", "IndexStackDown")]
                if not (up and down and up[0] < li):
                    j.v("index-stack", "the array index stack is not pushed and (deferred) popped", witness="nested arrays address the wrong element")
        else:
            if lang in ("py", "go"):
                if it is None or show(it) != "field_processors":
                    j.u(f"field loop iterates `{show(it) if it is not None else None}`")
                    return
                lv = _loop_var(lp)
                for b in bodies:
                    proc = [c for c in _calls(b) if c.name in ("process", "Process")]
                    if len(proc) != 1 or proc[0].recv is None or (lv is not None and proc[0].recv != V(lv)):
                        j.v("children", "fields are not processed once each in list order", construct=str(_calls(b)))
                        return
            else:
                if it != call("range", V("descriptor.nfields")):
                    a = single_atom(it) if it is not None else None
                    if a is not None and a[0] == "call" and a[1] == "range":
                        j.v("children", f"fields are visited for `{show(it)}`, not k = 0..nfields-1", construct=show(it), witness="a message with two fields: one is processed twice / skipped")
                    else:
                        j.u(f"field loop iterates `{show(it) if it is not None else None}`")
                    return
                lv = _loop_var(lp) or "k"
                want = Poly.atom(("load", "descriptor.field_descriptors", V(lv)))
                for b in bodies:
                    proc = [c for c in _calls(b) if c.name == "BpEndecodeMessageField"]
                    if len(proc) != 1:
                        j.v("children", "fields are not processed once each through BpEndecodeMessageField", construct=str(_calls(b)), witness="a message with two fields: one is processed twice / skipped")
                        return
                    # a pointer cursor: starts at field_descriptors, advances by one per iteration
                    arg = proc[0].args[0]
                    aa = single_atom(arg)
                    if aa is not None and aa[0] == "var" and aa[1].endswith(lp.op):
                        cur_name = aa[1][: -len(lp.op)]
                        init = lp.kw.get(cur_name)
                        end = b.env.get(cur_name)
                        if init is not None and show(init) == "descriptor.field_descriptors" and end is not None and end - arg == C(1):
                            continue
                        j.v("children", f"the field cursor `{cur_name}` does not start at field_descriptors and advance by one descriptor per iteration", construct=f"start {show(init) if init is not None else None}, step {show(end - arg) if end is not None else None}", witness="a message with two fields: one is processed twice / skipped")
                        return
                    if proc[0].args[0] != want and proc[0].args[0] != V("descriptor.field_descriptors") + V(lv):
                        j.v("children", f"field k is processed with descriptor `{show(proc[0].args[0])}`, not field_descriptors[k]", construct=show(proc[0].args[0]), witness="a message with two fields: one is processed twice / skipped")
                        return


def _loop_var(lp: Ev) -> Optional[str]:
    st = lp.node
    if isinstance(st, ast.For) and isinstance(st.target, ast.Name):
        return st.target.id
    return None


# ----------------------------------------------------------------------- rules


def _emit(res: RuleResult, rid: str, part: str, site: Site, fname: str, line: int, j: Judged, tagp: str) -> None:
    for tag, msg, construct, witness in j.bad:
        f = Finding(rid, site.rel, line, fname, construct, msg, witness=witness, tag=f"{tagp}:{fname}:{tag}")
        f.part = part
        res.bad(f)
    for u in j.unsure:
        res.unsure(f"{rid}: {tagp}:{fname}: {u}")


def _proc_paths(L: Lang, site: Site, key: str, extra: Sequence[str] = ()) -> List[Path]:
    fl = flow_for(L, site, key, extra)
    return fl.run(L.func(key))


PROC_SITES = (
    (PY, py_runtime, (("Array.process", "array"), ("MessageProcessor.process", "message")), ()),
    (GO, go_runtime, (("Array.Process", "array"), ("MessageProcessor.Process", "message")), ()),
)


@rule("D3", "extensible processors: start before prefix, prefix guarded, children in order, skip only on decode to the layout-rule target")
def d3(repo: Repo) -> RuleResult:
    res = RuleResult("D3", floor=4)
    for site, rt, keys, extra in PROC_SITES:
        try:
            L = rt(repo)
        except Inconclusive as e:
            res.unsure(f"D3: {site.lang}: {e}")
            continue
        for key, kind in keys:
            try:
                fn = L.func(key)
                paths = _proc_paths(L, site, key, extra)
            except Inconclusive as e:
                res.unsure(f"D3: {site.lang}:{key}: {e}")
                continue
            j = Judged()
            judge_processor(paths, site, kind, j, lambda e: None)
            check_children(paths, site, kind, j)
            res.inst(part=site.lang, function=key, kind=kind, paths=len(paths), **j.info)
            _emit(res, "D3", site.lang, site, key, fn.lineno, j, site.lang)
        # a field is processed with an indexer built from its own number
        try:
            key = "MessageFieldProcessor.process" if site.lang == "py" else "MessageFieldProcessor.Process"
            fn = L.func(key)
            fl = L.flow("MessageFieldProcessor", primitives=(site.base,), names=role_names(L, site, "MessageFieldProcessor"))
            ok = True
            why = ""
            for p in fl.run(fn):
                cs = [c for c in _calls(p) if c.name in ("process", "Process")]
                if len(cs) != 1 or len(cs[0].args) < 2:
                    ok, why = False, str(_calls(p))
                    continue
                di = new_parts(cs[0].args[1])
                num = None
                if di is not None:
                    num = di[1].get(site.di_field)
                if di is None or di[0] != site.di_cls or num is None or show(num) != "field_number":
                    ok, why = False, show(cs[0].args[1])
            res.inst(part=site.lang, function=key, ok=ok)
            if not ok:
                f = Finding("D3", site.rel, fn.lineno, key, why, "a field is not processed with an indexer built from its own field number", witness="every field reads / writes field 0", tag=f"{site.lang}:MessageFieldProcessor")
                f.part = site.lang
                res.bad(f)
        except Inconclusive as e:
            res.unsure(f"D3: {site.lang}: {e}")
    return res


@rule("C3", "the 16-bit prefix: width literal, what is written (nbits / capacity), what is returned, accessor field number")
def c3(repo: Repo) -> RuleResult:
    res = RuleResult("C3", floor=8)
    m = get_model(repo)
    for site, rt, keys, extra in PROC_SITES:
        try:
            L = rt(repo)
        except Inconclusive as e:
            res.unsure(f"C3: {site.lang}: {e}")
            continue
        for key, kind in keys:
            try:
                fn = L.func(key)
                paths = _proc_paths(L, site, key, extra)
            except Inconclusive as e:
                res.unsure(f"C3: {site.lang}:{key}: {e}")
                continue
            j = Judged()
            judge_prefix(paths, site, kind, j)
            res.inst(part=site.lang, function=key, kind=kind, **j.info)
            _emit(res, "C3", site.lang, site, key, fn.lineno, j, site.lang)
            # the prefix coders exist under their documented names
            for meth in (("encode_extensible_ahead", "decode_extensible_ahead") if site.lang == "py" else ("EncodeExtensibleAhead", "DecodeExtensibleAhead")):
                res.inst(part=site.lang, function=f"{key.split('.')[0]}.{meth}", present=L.has(f"{key.split('.')[0]}.{meth}"))
        # scratch accessor: ORs chunks into / reads bytes from its data for field number 1
        try:
            acc = site.acc_cls or ""
            setk, getk = ("bp_set_byte", "bp_get_byte") if site.lang == "py" else ("BpSetByte", "BpGetByte")
            fl = L.flow(acc, names={}, primitives=())
            sfn, gfn = L.func(f"{acc}.{setk}"), L.func(f"{acc}.{getk}")
            me = sfn.args.args[0].arg
            ok_set = False
            for p in fl.run(sfn):
                if _field_is(p, site, 1):
                    for e in p.effects:
                        if e.kind == "setattr" and e.name == f"{me}.data" and e.op == "|=" and e.args[0] == V("b") * pow2(V("lshift")):
                            ok_set = True
            ok_get = False
            for p in fl.run(gfn):
                if _field_is(p, site, 1) and p.ret is not None and p.ret == trunc8(shr(V(f"{gfn.args.args[0].arg}.data"), V("rshift"))):
                    ok_get = True
            res.inst(part=site.lang, function=acc, set_ok=ok_set, get_ok=ok_get)
            if not (ok_set and ok_get):
                f = Finding("C3", site.rel, sfn.lineno, acc, "", f"{acc} does not OR (chunk << lshift) into / read (data >> rshift) & 255 from its data for field number 1", witness="every prefix is 0", tag=f"{site.lang}:{acc}")
                f.part = site.lang
                res.bad(f)
        except Inconclusive as e:
            res.unsure(f"C3: {site.lang}: {e}")
    # _ast ahead_nbits
    for cname in ("Array", "Message"):
        c = m.cls(cname, "_ast.py")
        f = c.methods.get("ahead_nbits")
        rets = [n.value.value for n in ast.walk(f.node) if isinstance(n, ast.Return) and isinstance(n.value, ast.Constant)] if f else None
        res.inst(part="ast", function=f"{cname}.ahead_nbits", returns=rets)
        if rets != [16]:
            fd = Finding("C3", AST_REL, f.node.lineno if f else 0, f"{cname}.ahead_nbits", str(rets), "the size arithmetic counts a prefix other than 16 bits", witness="buffer length / following offsets disagree with the runtimes", tag=f"ast:{cname}.ahead_nbits")
            fd.part = "ast"
            res.bad(fd)
    return res


def _field_is(p: Path, site: Site, n: int) -> bool:
    """The path is the one taken for field number n (== literal or switch)."""
    for k, t in p.guards:
        if k[0] == "cmp" and k[1] == "==" and t:
            d = k[2]
            names = {a[1] for a in _all_atoms(d) if a[0] == "var"}
            if any("field_number" in x or "fnumber" in x for x in names) and d.terms.get((), 0) in (-n, n):
                return True
            a_calls = [a for a in _all_atoms(d) if a[0] in ("call", "mcall") and a[1] == "F"]
            if a_calls and d.terms.get((), 0) in (-n, n):
                return True
    return False


# --------------------------------------------------------------------- D7


def _only_calls(p: Path) -> List[Ev]:
    return [e for e in p.effects if e.kind in ("call", "setattr", "store", "loop")]


@rule("D7", "alias / enum processors only delegate: no cursor change, no prefix")
def d7(repo: Repo) -> RuleResult:
    res = RuleResult("D7", floor=4)
    for site, rt in ((PY, py_runtime), (GO, go_runtime)):
        try:
            L = rt(repo)
        except Inconclusive as e:
            res.unsure(f"D7: {site.lang}: {e}")
            continue
        proc = "process" if site.lang == "py" else "Process"
        for cname, target in (("AliasProcessor", "to"), ("EnumProcessor", "ut")):
            try:
                fn = L.func(f"{cname}.{proc}")
                paths = L.flow(cname, primitives=(site.base,), names=role_names(L, site, cname)).run(fn)
            except Inconclusive as e:
                res.unsure(f"D7: {site.lang}:{cname}: {e}")
                continue
            shapes = []
            ok = True
            for p in paths:
                evs = _only_calls(p)
                shapes.append(str(evs))
                if not (len(evs) == 1 and evs[0].kind == "call" and evs[0].name == proc and evs[0].recv is not None and show(evs[0].recv) == target and [show(a) for a in evs[0].args] == ["ctx", "di", "accessor"]):
                    ok = False
            res.inst(part=site.lang, function=f"{cname}.{proc}", body=shapes)
            if not ok:
                fd = Finding("D7", site.rel, fn.lineno, f"{cname}.{proc}", str(shapes), "the processor does more (or something else) than delegate to its target", witness="introducing an alias changes the encoded bytes", tag=f"{site.lang}:{cname}")
                fd.part = site.lang
                res.bad(fd)
        # Int: bit copy, then the sign step on decode only
        try:
            fn = L.func(f"Int.{proc}")
            paths = L.flow("Int", primitives=(site.base,), names=role_names(L, site, "Int")).run(fn)
            ok = True
            shapes = []
            sign = "bp_process_int" if site.lang == "py" else "BpProcessInt"
            for p in paths:
                enc = truth(p, ENC)
                evs = _only_calls(p)
                shapes.append((enc, str(evs)))
                copy_ok = len(evs) >= 1 and evs[0].kind == "call" and evs[0].name == site.base and evs[0].args[0] == V("nbits") and [show(a) for a in evs[0].args[1:]] == ["ctx", "di", "accessor"]
                if enc is True:
                    ok = ok and copy_ok and len(evs) == 1
                elif enc is False:
                    ok = ok and copy_ok and len(evs) == 2 and evs[1].kind == "call" and evs[1].name == sign and evs[1].recv is not None and show(evs[1].recv) == "accessor" and [show(a) for a in evs[1].args] == ["di"]
                else:
                    ok = False
            res.inst(part=site.lang, function=f"Int.{proc}", body=shapes)
            if not ok:
                fd = Finding("D7", site.rel, fn.lineno, f"Int.{proc}", str(shapes), "signed integers are not: copy nbits, then (decode only) sign step", witness="negative int5 decodes as positive", tag=f"{site.lang}:Int.{proc}")
                fd.part = site.lang
                res.bad(fd)
        except Inconclusive as e:
            res.unsure(f"D7: {site.lang}:Int: {e}")
        for cname, n in (("Bool", C(1)), ("Byte", C(8)), ("Uint", V("nbits"))):
            try:
                fn = L.func(f"{cname}.{proc}")
                paths = L.flow(cname, primitives=(site.base,), names=role_names(L, site, cname)).run(fn)
            except Inconclusive as e:
                res.unsure(f"D7: {site.lang}:{cname}: {e}")
                continue
            ok = True
            shapes = []
            for p in paths:
                evs = _only_calls(p)
                shapes.append(str(evs))
                if not (len(evs) == 1 and evs[0].kind == "call" and evs[0].name == site.base and evs[0].args[0] == n and [show(a) for a in evs[0].args[1:]] == ["ctx", "di", "accessor"]):
                    ok = False
            res.inst(part=site.lang, function=f"{cname}.{proc}", body=shapes)
            if not ok:
                fd = Finding("D7", site.rel, fn.lineno, f"{cname}.{proc}", str(shapes), f"{cname} is not processed as {show(n)} bits", tag=f"{site.lang}:{cname}.{proc}")
                fd.part = site.lang
                res.bad(fd)
    return res
