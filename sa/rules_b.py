"""
Family B - grammar and lexer rules (engine E3 + guards).
"""

from __future__ import annotations

import ast
from typing import Any, Dict, List, Optional, Set, Tuple

from .core import Finding, Inconclusive, Repo, RuleResult, parent, qualname, rule, src_of
from .grammar import LEXER, PARSER, Action, Grammar, get_grammar
from .guards import Fact, always_exits, facts_at

# --------------------------------------------------------------------------
# helpers shared by B rules
# --------------------------------------------------------------------------


def _is_len_p(e: ast.AST) -> bool:
    return isinstance(e, ast.Call) and isinstance(e.func, ast.Name) and e.func.id == "len" and len(e.args) == 1 and isinstance(e.args[0], ast.Name) and e.args[0].id == "p"


def eval_int(e: ast.AST, L: int, fn: ast.FunctionDef, depth: int = 0) -> Optional[int]:
    """Constant-fold an index expression with len(p) := L."""
    if isinstance(e, ast.Constant) and isinstance(e.value, int) and not isinstance(e.value, bool):
        return e.value
    if _is_len_p(e):
        return L
    if isinstance(e, ast.BinOp) and isinstance(e.op, (ast.Add, ast.Sub)):
        a, b = eval_int(e.left, L, fn, depth), eval_int(e.right, L, fn, depth)
        if a is None or b is None:
            return None
        return a + b if isinstance(e.op, ast.Add) else a - b
    if isinstance(e, ast.UnaryOp) and isinstance(e.op, ast.USub):
        a = eval_int(e.operand, L, fn, depth)
        return -a if a is not None else None
    if isinstance(e, ast.IfExp):
        t = eval_bool(e.test, L, fn, depth)
        if t is None:
            return None
        return eval_int(e.body if t else e.orelse, L, fn, depth)
    if isinstance(e, ast.Name) and depth < 4:
        vals = _assigned_values(e.id, fn, L, depth)
        if len(vals) == 1:
            return eval_int(vals[0], L, fn, depth + 1)
    return None


def eval_bool(e: ast.AST, L: int, fn: ast.FunctionDef, depth: int = 0) -> Optional[bool]:
    if isinstance(e, ast.Compare) and len(e.ops) == 1:
        a = eval_int(e.left, L, fn, depth)
        b = eval_int(e.comparators[0], L, fn, depth)
        if a is None or b is None:
            return None
        op = e.ops[0]
        return {
            ast.Eq: a == b, ast.NotEq: a != b, ast.Lt: a < b, ast.LtE: a <= b, ast.Gt: a > b, ast.GtE: a >= b,
        }.get(type(op))
    if isinstance(e, ast.UnaryOp) and isinstance(e.op, ast.Not):
        v = eval_bool(e.operand, L, fn, depth)
        return None if v is None else not v
    if isinstance(e, ast.Name) and depth < 4:
        vals = _assigned_values(e.id, fn)
        if len(vals) == 1:
            return eval_bool(vals[0], L, fn, depth + 1)
    if isinstance(e, ast.BoolOp):
        vs = [eval_bool(v, L, fn, depth) for v in e.values]
        if isinstance(e.op, ast.And):
            if any(v is False for v in vs):
                return False
            if all(v is True for v in vs):
                return True
        else:
            if any(v is True for v in vs):
                return True
            if all(v is False for v in vs):
                return False
    return None


def enclosing_loop(n: ast.AST, fn: ast.AST) -> bool:
    from .core import parent as _p

    q = _p(n)
    while q is not None and q is not fn:
        if isinstance(q, (ast.For, ast.While, ast.ListComp, ast.GeneratorExp)):
            return True
        q = _p(q)
    return False


def _assigned_values(name: str, fn: ast.FunctionDef, L: Optional[int] = None, depth: int = 0) -> List[ast.AST]:
    """Values assigned to `name` in fn.  With L given, assignments sitting under conditions that
    fold to false for len(p) == L are left out (if len(p) == 6: i = 2 else: i = 3)."""
    vals = _assigned_values_all(name, fn)
    if L is None or len(vals) <= 1 or depth >= 3:
        return [v for v, _ in vals]
    live = []
    for v, node in vals:
        dead = False
        for t, truth in facts_at(node, fn):
            b = eval_bool(t, L, fn, depth + 2)
            if b is not None and b != truth:
                dead = True
                break
        if not dead:
            live.append(v)
    return live


def _assigned_values_all(name: str, fn: ast.FunctionDef) -> List[Tuple[ast.AST, ast.AST]]:
    out: List[Tuple[ast.AST, ast.AST]] = []
    for n in ast.walk(fn):
        if isinstance(n, ast.Assign):
            for t in n.targets:
                if isinstance(t, ast.Name) and t.id == name:
                    out.append((n.value, n))
                elif isinstance(t, ast.Tuple) and isinstance(n.value, ast.Tuple) and len(t.elts) == len(n.value.elts):
                    for a, b in zip(t.elts, n.value.elts):
                        if isinstance(a, ast.Name) and a.id == name:
                            out.append((b, n))
                elif isinstance(t, ast.Tuple) and isinstance(n.value, ast.IfExp) and isinstance(n.value.body, ast.Tuple) and isinstance(n.value.orelse, ast.Tuple) and len(t.elts) == len(n.value.body.elts) == len(n.value.orelse.elts):
                    # a, b = (x1, y1) if c else (x2, y2)
                    for i, a in enumerate(t.elts):
                        if isinstance(a, ast.Name) and a.id == name:
                            out.append((ast.copy_location(ast.IfExp(test=n.value.test, body=n.value.body.elts[i], orelse=n.value.orelse.elts[i]), n.value), n))
        elif isinstance(n, ast.AnnAssign) and isinstance(n.target, ast.Name) and n.target.id == name and n.value is not None:
            out.append((n.value, n))
    return out


def live_alts(node: ast.AST, fn: ast.FunctionDef, alts: List[Tuple[str, List[str]]]) -> List[Tuple[str, List[str]]]:
    facts = facts_at(node, fn)
    out = []
    for lhs, alt in alts:
        L = len(alt) + 1
        dead = False
        for t, truth in facts:
            v = eval_bool(t, L, fn)
            if v is not None and v != truth:
                dead = True
                break
        if not dead:
            out.append((lhs, alt))
    return out


class IndexUse:
    def __init__(self, node: ast.AST, expr: Optional[ast.AST], kind: str, default: Optional[int] = None) -> None:
        self.node = node
        self.expr = expr
        self.kind = kind  # 'value' | 'value-store' | 'lineno' | 'lexpos' | 'col' | 'indent' | 'track-from' | 'track-to'
        self.default = default


def index_uses(fn: ast.FunctionDef) -> List[IndexUse]:
    uses: List[IndexUse] = []
    for n in ast.walk(fn):
        if isinstance(n, ast.Subscript) and isinstance(n.value, ast.Name) and n.value.id == "p" and not isinstance(n.slice, ast.Slice):
            uses.append(IndexUse(n, n.slice, "value-store" if isinstance(n.ctx, ast.Store) else "value"))
        elif isinstance(n, ast.Call) and isinstance(n.func, ast.Attribute):
            f = n.func
            if isinstance(f.value, ast.Name) and f.value.id == "p" and f.attr in ("lineno", "lexpos", "set_lineno", "set_lexpos", "linespan", "lexspan") and n.args:
                uses.append(IndexUse(n, n.args[0], "lineno" if "lineno" in f.attr else "lexpos"))
            elif isinstance(f.value, ast.Name) and f.value.id == "self" and n.args and isinstance(n.args[0], ast.Name) and n.args[0].id == "p":
                if f.attr == "_get_col":
                    k = n.args[1] if len(n.args) > 1 else _kw(n, "k")
                    uses.append(IndexUse(n, k, "col"))
                elif f.attr == "current_indent":
                    k = n.args[1] if len(n.args) > 1 else _kw(n, "i")
                    uses.append(IndexUse(n, k, "indent", default=1))
                elif f.attr == "copy_p_tracking":
                    fr = n.args[1] if len(n.args) > 1 else _kw(n, "from_")
                    to = n.args[2] if len(n.args) > 2 else _kw(n, "to")
                    uses.append(IndexUse(n, fr, "track-from", default=1))
                    uses.append(IndexUse(n, to, "track-to", default=0))
    return uses


def _kw(call: ast.Call, name: str) -> Optional[ast.AST]:
    for k in call.keywords:
        if k.arg == name:
            return k.value
    return None


def helper_alts(g: Grammar) -> Dict[str, List[Tuple[str, List[str]]]]:
    """Parser helper methods that take `p` and index it with constants get the
    union of the alternatives of the actions that call them."""
    out: Dict[str, List[Tuple[str, List[str]]]] = {}
    assert g.parser_cls is not None
    helpers = {
        st.name: st
        for st in g.parser_cls.body
        if isinstance(st, ast.FunctionDef) and not st.name.startswith("p_") and any(a.arg == "p" for a in st.args.args)
    }
    for aname, act in g.actions.items():
        for n in ast.walk(act.node):
            if isinstance(n, ast.Call) and isinstance(n.func, ast.Attribute) and isinstance(n.func.value, ast.Name) and n.func.value.id == "self" and n.func.attr in helpers:
                if n.args and isinstance(n.args[0], ast.Name) and n.args[0].id == "p":
                    out.setdefault(n.func.attr, []).extend(g.alts_of_action(aname))
    return out


def _params(fn: ast.FunctionDef) -> Set[str]:
    return {a.arg for a in fn.args.args}


# --------------------------------------------------------------------------
# B1 production / action index consistency
# --------------------------------------------------------------------------


@rule("B1", "every p[k] / p.lineno(k) lies inside every live alternative; p[0] is not read before it is assigned")
def b1(repo: Repo) -> RuleResult:
    res = RuleResult("B1", floor=40)
    g = get_grammar(repo)
    units: List[Tuple[str, ast.FunctionDef, List[Tuple[str, List[str]]]]] = []
    for name, act in g.actions.items():
        units.append((name, act.node, g.alts_of_action(name)))
    assert g.parser_cls is not None
    helpers = helper_alts(g)
    for st in g.parser_cls.body:
        if isinstance(st, ast.FunctionDef) and st.name in helpers:
            units.append((st.name, st, helpers[st.name]))

    for name, fn, alts in units:
        uses = index_uses(fn)
        params = _params(fn)
        first_store_pos: Optional[Tuple[int, int]] = None
        for u in uses:
            if u.kind == "value-store":
                L0 = len(alts[0][1]) + 1 if alts else 1
                if u.expr is not None and eval_int(u.expr, L0, fn) == 0:
                    pos = (u.node.lineno, u.node.col_offset)
                    if first_store_pos is None or pos < first_store_pos:
                        first_store_pos = pos
        for u in uses:
            expr = u.expr
            if expr is None and u.default is None:
                continue
            if expr is not None and isinstance(expr, ast.Name) and expr.id in params:
                continue  # index is a parameter of a helper: checked at the call sites
            live = live_alts(u.node, fn, alts)
            res.inst(action=name, use=src_of(u.node), kind=u.kind, live_alternatives=len(live))
            for lhs, alt in live:
                L = len(alt) + 1
                k = eval_int(expr, L, fn) if expr is not None else u.default
                if k is None:
                    res.unsure(f"B1: {name}: index expression `{src_of(expr)}` not foldable")  # type: ignore[arg-type]
                    break
                if not (0 <= k < L):
                    res.bad(
                        Finding(
                            "B1", PARSER, u.node.lineno, f"Parser.{name}", src_of(u.node),
                            f"symbol index {k} is outside the alternative `{lhs} : {' '.join(alt) or '<empty>'}` (len(p) = {L})",
                            witness=f"any input that reduces `{lhs} : {' '.join(alt) or '<empty>'}` raises IndexError inside ply",
                            tag=f"{name}:{src_of(u.node)}:{k}",
                        )
                    )
                    break
                if k == 0 and u.kind == "value":
                    pos = (u.node.lineno, u.node.col_offset)
                    if first_store_pos is None or pos < first_store_pos:
                        # reading p[0] before assigning it: ply initialises it to None
                        res.bad(
                            Finding(
                                "B1", PARSER, u.node.lineno, f"Parser.{name}", src_of(_stmt_of(u.node)),
                                "p[0] is read before the action assigns it (ply initialises it to None)",
                                witness="an input that reduces one of: " + "; ".join(f"{l} : {' '.join(a)}" for l, a in live) + " and reaches this statement uses None as a node",
                                tag=f"{name}:read-p0",
                            )
                        )
                        break
    return res


def _stmt_of(n: ast.AST) -> ast.AST:
    while n is not None and not isinstance(n, ast.stmt):
        n = parent(n)  # type: ignore[assignment]
    return n


# --------------------------------------------------------------------------
# B2 position tracking
# --------------------------------------------------------------------------


def tracked_nonterminals(g: Grammar) -> Set[str]:
    tracked: Set[str] = set()
    changed = True
    while changed:
        changed = False
        for name, act in g.actions.items():
            for prod in act.prods:
                if prod.lhs in tracked:
                    continue
                # unconditional copy_p_tracking(p[, from_, to=0]) at top level of the action
                src_idx: Optional[int] = None
                for st in act.node.body:
                    if isinstance(st, ast.Expr) and isinstance(st.value, ast.Call):
                        c = st.value
                        if isinstance(c.func, ast.Attribute) and c.func.attr == "copy_p_tracking":
                            fr = c.args[1] if len(c.args) > 1 else _kw(c, "from_")
                            to = c.args[2] if len(c.args) > 2 else _kw(c, "to")
                            frv = eval_int(fr, 0, act.node) if fr is not None else 1
                            tov = eval_int(to, 0, act.node) if to is not None else 0
                            if tov == 0 and frv is not None:
                                src_idx = frv
                if src_idx is None:
                    continue
                ok = True
                for alt in prod.alts:
                    if src_idx - 1 >= len(alt) or src_idx < 1:
                        ok = False
                        break
                    s = alt[src_idx - 1]
                    if not (g.is_terminal(s) or s in tracked):
                        ok = False
                        break
                if ok:
                    tracked.add(prod.lhs)
                    changed = True
    return tracked


def can_derive_newline(g: Grammar, sym: str, _seen: Optional[Set[str]] = None) -> bool:
    if sym in ("NEWLINE", "COMMENT"):
        return True
    if g.is_terminal(sym):
        return False
    seen = _seen or set()
    if sym in seen:
        return False
    seen.add(sym)
    for alt in g.prods[sym].alts:
        for s in alt:
            if can_derive_newline(g, s, seen):
                return True
    return False


def _index_descriptor(e: ast.AST, L: int, fn: ast.FunctionDef, node_for_facts: ast.AST, depth: int = 0) -> Optional[Tuple[str, Any]]:
    """('val', k) for p[k]; ('line', k) for p.lineno(k); ('col', k) for
    self._get_col(p, k); ('fmt', [k...]) for a format over p[k]s."""
    if isinstance(e, ast.Subscript) and isinstance(e.value, ast.Name) and e.value.id == "p":
        k = eval_int(e.slice, L, fn)
        return ("val", k) if k is not None else None
    if isinstance(e, ast.Call) and isinstance(e.func, ast.Attribute):
        f = e.func
        if isinstance(f.value, ast.Name) and f.value.id == "p" and f.attr == "lineno" and e.args:
            k = eval_int(e.args[0], L, fn)
            return ("line", k) if k is not None else None
        if f.attr == "_get_col" and len(e.args) >= 2:
            k = eval_int(e.args[1], L, fn)
            return ("col", k) if k is not None else None
        if f.attr == "format" and isinstance(f.value, ast.Constant):
            ks = []
            for a in e.args:
                d = _index_descriptor(a, L, fn, node_for_facts, depth)
                if d and d[0] == "val":
                    ks.append(d[1])
            if ks:
                return ("fmt", ks)
    if isinstance(e, ast.IfExp):
        t = eval_bool(e.test, L, fn)
        if t is None:
            return None
        return _index_descriptor(e.body if t else e.orelse, L, fn, node_for_facts, depth)
    if isinstance(e, ast.Name) and depth < 3:
        # choose the assignment whose guards are consistent with L
        cands = []
        for n in ast.walk(fn):
            if isinstance(n, ast.Assign):
                pairs: List[Tuple[ast.AST, ast.AST]] = []
                for t in n.targets:
                    if isinstance(t, ast.Name):
                        pairs.append((t, n.value))
                    elif isinstance(t, ast.Tuple) and isinstance(n.value, ast.Tuple) and len(t.elts) == len(n.value.elts):
                        pairs.extend(zip(t.elts, n.value.elts))
                for a, b in pairs:
                    if isinstance(a, ast.Name) and a.id == e.id:
                        ok = True
                        for tt, truth in facts_at(n, fn):
                            v = eval_bool(tt, L, fn)
                            if v is not None and v != truth:
                                ok = False
                        if ok:
                            cands.append(b)
        if len(cands) == 1:
            return _index_descriptor(cands[0], L, fn, node_for_facts, depth + 1)
    return None


NAME_SYMBOLS = {"IDENTIFIER", "dotted_identifier", "message_field_name"}


@rule("B2", "positions come from tracked symbols; node token/name/col/line refer to the name symbol; errors carry file and line")
def b2(repo: Repo) -> RuleResult:
    res = RuleResult("B2", floor=60)
    g = get_grammar(repo)
    tracked = tracked_nonterminals(g)
    res.note("tracked nonterminals: " + ", ".join(sorted(tracked)))
    beliefs = load_beliefs()

    # (a) every position use refers to a terminal or a tracked nonterminal
    for name, act in g.actions.items():
        alts = g.alts_of_action(name)
        for u in index_uses(act.node):
            if u.kind not in ("lineno", "lexpos", "col", "indent"):
                continue  # copying the tracking of an untracked symbol is harmless; reads matter
            if isinstance(u.node, ast.Call) and isinstance(u.node.func, ast.Attribute) and u.node.func.attr.startswith("set_"):
                continue
            live = live_alts(u.node, act.node, alts)
            res.inst(part="position-use", action=name, use=src_of(u.node))
            for lhs, alt in live:
                L = len(alt) + 1
                k = eval_int(u.expr, L, act.node) if u.expr is not None else u.default
                if k is None or not (1 <= k < L):
                    continue  # B1's business
                s = alt[k - 1]
                if g.is_terminal(s) or s in tracked:
                    continue
                key = f"B2|{name}|{src_of(u.node)}|untracked"
                if key in beliefs:
                    res.note(f"belief used: {key}: {beliefs[key]['reason']}")
                    continue
                res.bad(
                    Finding(
                        "B2", PARSER, u.node.lineno, f"Parser.{name}", src_of(u.node),
                        f"position of symbol {k} (`{s}`) is read, but `{s}` is a nonterminal whose action does not copy ply's position tracking, so ply reports line 0 / lexpos 0",
                        witness=f"any input reducing `{lhs} : {' '.join(alt)}`",
                        tag=f"{name}:{src_of(u.node)}:{s}",
                    )
                )
                break

    # (b) node constructions: token / name / col / line consistency
    node_ctor_kw = {"token", "token_col_start", "lineno"}
    for name, act in g.actions.items():
        alts = g.alts_of_action(name)
        for n in ast.walk(act.node):
            if not isinstance(n, ast.Call):
                continue
            kws = {k.arg: k.value for k in n.keywords if k.arg}
            if not node_ctor_kw.issubset(kws):
                continue
            ctor = src_of(n.func)
            res.inst(part="node-positions", action=name, ctor=ctor)
            for lhs, alt in live_alts(n, act.node, alts):
                L = len(alt) + 1
                tok = _index_descriptor(kws["token"], L, act.node, n)
                col = _index_descriptor(kws["token_col_start"], L, act.node, n)
                lin = _index_descriptor(kws["lineno"], L, act.node, n)
                nam = _index_descriptor(kws["name"], L, act.node, n) if "name" in kws else None
                if tok is None or col is None or lin is None:
                    res.unsure(f"B2: {name}: {ctor}(token/col/lineno) not in an enumerated form for `{lhs} : {' '.join(alt)}`")
                    break
                first_tok = tok[1] if tok[0] == "val" else (tok[1][0] if tok[0] == "fmt" else None)
                problems = []
                if col[0] != "col" or col[1] != first_tok:
                    problems.append(f"token_col_start is taken from symbol {col[1]} but the token text starts at symbol {first_tok}")
                if lin[0] != "line":
                    problems.append("lineno is not p.lineno(k)")
                else:
                    a, b = sorted((lin[1], first_tok if first_tok is not None else lin[1]))
                    if any(can_derive_newline(g, s) for s in alt[a - 1 : b]):
                        problems.append(f"lineno is taken from symbol {lin[1]}, which may stand on another line than the token (symbol {first_tok})")
                if tok[0] == "val" and not g.is_terminal(alt[tok[1] - 1]) and alt[tok[1] - 1] not in NAME_SYMBOLS:
                    problems.append(f"token is symbol {tok[1]} (`{alt[tok[1]-1]}`), not a name symbol")
                if tok[0] == "val" and g.is_terminal(alt[tok[1] - 1]) and alt[tok[1] - 1] not in NAME_SYMBOLS and "name" in kws:
                    problems.append(f"token is symbol {tok[1]} (`{alt[tok[1]-1]}`), not the name symbol")
                if nam is not None and nam[0] == "val" and tok[0] == "val" and nam[1] != tok[1]:
                    problems.append(f"name is symbol {nam[1]} but token is symbol {tok[1]}")
                if nam is not None and nam[0] == "val" and alt[nam[1] - 1] not in NAME_SYMBOLS:
                    problems.append(f"name is symbol {nam[1]} (`{alt[nam[1]-1]}`), not a name symbol")
                for pr in problems:
                    res.bad(
                        Finding(
                            "B2", PARSER, n.lineno, f"Parser.{name}", f"{ctor}(...)", pr,
                            witness=f"a definition reduced by `{lhs} : {' '.join(alt)}` records a wrong position",
                            tag=f"{name}:{ctor}:{pr[:40]}",
                        )
                    )
                if problems:
                    break

    # (c) ParserError raises in grammar / lexer actions carry filepath + lineno (or from_token)
    from .pymodel import get_model

    model = get_model(repo)
    parser_error = model.cls("ParserError", "errors.py")
    for rel, cls_node in ((PARSER, g.parser_cls), (LEXER, g.lexer_cls)):
        assert cls_node is not None
        for n in ast.walk(cls_node):
            if isinstance(n, ast.Raise) and isinstance(n.exc, ast.Call):
                c = n.exc
                fname = c.func
                if isinstance(fname, ast.Attribute) and fname.attr == "from_token":
                    res.inst(part="error-position", where=qualname(n), form="from_token")
                    continue
                cname = fname.id if isinstance(fname, ast.Name) else None
                if cname is None:
                    continue
                cands = [k for k in model.all_classes() if k.name == cname]
                if not cands or not model.is_subclass(cands[0], parser_error):
                    continue
                kws = {k.arg for k in c.keywords}
                res.inst(part="error-position", where=qualname(n), form=",".join(sorted(k for k in kws if k)))
                if {"filepath", "lineno"} <= kws:
                    continue
                key = f"B2|{qualname(n)}|{cname}|no-position"
                if key in beliefs:
                    res.note(f"belief used: {key}")
                    continue
                res.bad(
                    Finding(
                        "B2", rel, n.lineno, qualname(n), src_of(n.exc),
                        f"{cname} is raised without filepath= and lineno= (diagnostic cannot cite file and line)",
                        tag=f"{qualname(n)}:{cname}:no-position",
                    )
                )

    # (d) t_newline is the only place the line counter moves, +1 per newline;
    #     no other token regex (nor t_ignore) can consume a newline.
    import re._parser as sre_parse  # type: ignore

    assert g.lexer_cls is not None
    writers = []
    for n in ast.walk(g.lexer_cls):
        if isinstance(n, (ast.AugAssign, ast.Assign)):
            tgts = [n.target] if isinstance(n, ast.AugAssign) else n.targets
            for t in tgts:
                if isinstance(t, ast.Attribute) and t.attr == "lineno" and "lexer" in src_of(t.value):
                    writers.append(n)
    res.inst(part="newline", writers=len(writers))
    if len(writers) != 1:
        res.bad(Finding("B2", LEXER, writers[0].lineno if writers else 0, "Lexer", "lexer.lineno writers", f"{len(writers)} statements change lexer.lineno; exactly one (in the newline rule) is expected", tag="lineno-writers"))
    else:
        w = writers[0]
        fn = w
        while fn is not None and not isinstance(fn, ast.FunctionDef):
            fn = parent(fn)  # type: ignore[assignment]
        rx = ast.get_docstring(fn, clean=False) if fn is not None else None
        ok_inc = isinstance(w, ast.AugAssign) and isinstance(w.op, ast.Add) and isinstance(w.value, ast.Constant) and w.value.value == 1
        if not ok_inc:
            # t.lexer.lineno += len(t.value) / t.value.count("\n") are fine too
            v = src_of(w.value) if isinstance(w, ast.AugAssign) else ""
            ok_inc = isinstance(w, ast.AugAssign) and isinstance(w.op, ast.Add) and ("len(t.value)" in v or "count('\\n')" in v)
        one_nl = rx is not None and rx.strip() in (r"\n", r"\n+") and (rx.strip() == r"\n" or not (isinstance(w, ast.AugAssign) and isinstance(w.value, ast.Constant)))
        if not ok_inc or not one_nl:
            res.bad(Finding("B2", LEXER, w.lineno, qualname(w), src_of(w), f"line counter update `{src_of(w)}` under regex {rx!r} does not add exactly one per newline character", tag="newline-count"))
        if isinstance(w, ast.AugAssign) and fn is not None and not fn.name.lower().startswith("t_newline"):
            pass
    nl_rule = None
    for tname, (rx, fn) in g.t_rules.items():
        if fn is not None and any(w in list(ast.walk(fn)) for w in writers):
            nl_rule = tname
    for tname, (rx, fn) in g.t_rules.items():
        if tname == nl_rule:
            continue
        res.inst(part="newline", token=tname, regex=rx)
        try:
            parsed = sre_parse.parse(rx, __import__("re").VERBOSE)
        except Exception as e:  # pragma: no cover
            res.unsure(f"B2: regex of t_{tname} does not parse: {e}")
            continue
        if regex_may_match_newline(parsed):
            res.bad(Finding("B2", LEXER, fn.lineno if fn else 0, f"Lexer.t_{tname}", rx, "this token's regex can consume a newline character, which then is not counted by the line counter", witness="a definition after such a token is reported one line too early", tag=f"t_{tname}:newline"))
    if "\n" in g.t_ignore:
        res.bad(Finding("B2", LEXER, 0, "Lexer.t_ignore", repr(g.t_ignore), "t_ignore swallows newlines uncounted", tag="t_ignore:newline"))

    # (e) diagnostic template cites file path and L<lineno>
    errors = repo.py("compiler/bitproto/errors.py")
    found = False
    for n in ast.walk(errors):
        if isinstance(n, ast.ClassDef) and n.name == "_TokenBound":
            for st in n.body:
                if isinstance(st, ast.FunctionDef) and st.name == "format_default_description":
                    found = True
                    from .normal import show
                    from .pyflow import PyFlow, tpl_shape

                    try:
                        paths = [p_ for p_ in PyFlow(funcs={}, havoc_on=()).run(st) if p_.done == "return" and p_.ret is not None]
                    except Inconclusive as e:
                        res.unsure(f"B2: _TokenBound.format_default_description: {e}")
                        paths = []
                    res.inst(part="diagnostic-template", returns=len(paths))
                    any_fp = False
                    for p_ in paths:
                        txt = tpl_shape(p_.ret) or "{" + show(p_.ret) + "}"
                        under_filepath = any(k[0] == "truthy" and show(k[1]) == "self.filepath" and t for k, t in p_.guards) or any(k[0] == "isnone" and show(k[1]) == "self.filepath" and not t for k, t in p_.guards)
                        any_fp = any_fp or under_filepath
                        line_ = getattr(p_.ret_node, "lineno", st.lineno)
                        if "L{self.lineno}" not in txt:
                            res.bad(Finding("B2", "compiler/bitproto/errors.py", line_, "_TokenBound.format_default_description", txt, "diagnostic text does not contain L{lineno}", tag="template-lineno"))
                        if under_filepath and "{self.filepath}" not in txt:
                            res.bad(Finding("B2", "compiler/bitproto/errors.py", line_, "_TokenBound.format_default_description", txt, "diagnostic text omits the file path although it is set", tag="template-filepath"))
                    if paths and not any_fp:
                        res.bad(Finding("B2", "compiler/bitproto/errors.py", st.lineno, "_TokenBound.format_default_description", "", "no return path formats the file path", tag="template-no-filepath-branch"))
    if not found:
        res.unsure("B2: _TokenBound.format_default_description vanished")

    # (h) the indent of a definition is measured from the last NEWLINE seen: every production that
    # consumes a NEWLINE records its position on every path that returns normally
    try:
        from .flows import compiler_flow
        from .normal import V as _V
        from .normal import show as _show
        from .pyflow import single_atom as _sa

        n_nl = 0
        for name, act in g.actions.items():
            for lhs, alt in g.alts_of_action(name):
                ks = [i + 1 for i, s_ in enumerate(alt) if s_ == "NEWLINE"]
                if not ks:
                    continue
                n_nl += 1
                k = ks[-1]
                fl = compiler_flow(repo, "Parser", "parser.py", inline=lambda n_, f_: n_ in ("set_last_newline_pos",) or n_.startswith("_"), primitives=("push_comment", "clear_comment_block", "collect_comment_block"))
                prm = [a.arg for a in act.node.args.args]
                paths = fl.run(act.node, {prm[0]: _V("self"), prm[1]: _V("p")})
                for p_ in paths:
                    if p_.done != "return":
                        continue
                    sets = [e for e in p_.effects if e.kind == "setattr" and e.name.endswith("last_newline_pos")]
                    val = sets[-1].args[-1] if sets else None
                    a_ = _sa(val) if val is not None else None
                    good = a_ is not None and a_[0] == "mcall" and a_[1] == "lexpos" and len(a_[2]) == 2 and _show(a_[2][0]) == "p" and a_[2][1].const_value() == k
                    res.inst(part="newline-pos", action=name, alternative=" ".join(alt), records=_show(val) if val is not None else None)
                    if not good:
                        from .pyflow import show_lit as _sl

                        res.bad(Finding("B2", PARSER, act.node.lineno, f"Parser.{name}", _show(val) if val is not None else "", f"`{lhs} : {' '.join(alt)}` consumes the NEWLINE (symbol {k}) but a path that returns normally (under {[_sl(k_, t_) for k_, t_ in p_.guards] or 'no condition'}) " + ("records `" + _show(val) + "` as" if val is not None else "does not record") + " the position of the last newline: the indent of the next definition is measured from an earlier line", witness="uint8 a = 1; // trailing comment\n    uint8 b = 2;  -> false indent warning for b", tag=f"{name}:newline-pos"))
        if n_nl == 0:
            res.unsure("B2: no production consumes NEWLINE")
    except Inconclusive as e:
        res.unsure(f"B2: newline position: {e}")

    # (j) every file is lexed by a lexer of its own: ply's lexer.input() keeps lineno, so a parser / lexer that
    # is used for a second file goes on counting where the first file ended
    try:
        from .flows import compiler_flow as _cfj
        from .normal import V as _Vj
        from .normal import show as _shj
        from .pyflow import single_atom as _saj

        # helpers that build the child (whatever they are called) are seen through; parse / parse_string and the
        # grammar actions are not
        flj = _cfj(repo, "Parser", "parser.py", inline=lambda n_, f_: n_ not in ("parse", "parse_string", "parse_child") and not n_.startswith(("p_", "t_")), module_funcs=True)
        pcj = flj.methods.get("parse_child")
        if pcj is None:
            res.unsure("B2: Parser.parse_child vanished")
        else:
            prm_j = [a_.arg for a_ in pcj.args.args]
            env_j = {prm_j[0]: _Vj("self")}
            for a_ in prm_j[1:]:
                env_j[a_] = _Vj(a_)
            n_parse = 0
            for p_ in flj.run(pcj, env_j):
                for e in p_.effects:
                    if e.kind == "call" and e.name in ("parse", "parse_string") and e.recv is not None:
                        n_parse += 1
                        ra = _saj(e.recv)
                        fresh = ra is not None and ra[0] in ("new", "call") and (ra[1] == "Parser" or str(ra[1]).endswith("Parser"))
                        res.inst(part="fresh-lexer", receiver=_shj(e.recv)[:60], fresh=fresh)
                        if not fresh and ra is not None and ra[0] == "var" and ra[1].startswith("self."):
                            res.bad(Finding("B2", PARSER, pcj.lineno, "Parser.parse_child", _shj(e.recv), f"an imported file is parsed by the stored parser `{_shj(e.recv)}`, not by a parser (and lexer) constructed for it: ply's lexer.input() does not reset the line counter, so the second file parsed by it is cited with line numbers continuing from the first", witness="two imports in one file, an error on line 7 of the second imported file is cited as L18", tag="parse_child:reused-parser"))
                        elif not fresh:
                            res.unsure(f"B2: parse_child: receiver `{_shj(e.recv)}` of parse() not recognised")
            if n_parse == 0:
                res.unsure("B2: parse_child does not call parse()")
    except Inconclusive as e:
        res.unsure(f"B2: fresh lexer: {e}")

    # (i) column arithmetic: the column recorded for symbol k is its offset from the last newline in
    # front of it, 1-based on every line - also on the first one, where there is no newline to find
    try:
        _column_arithmetic(repo, g, res)
    except Inconclusive as e:
        res.unsure(f"B2: column arithmetic: {e}")
    return res


def _column_arithmetic(repo: Repo, g: Any, res: RuleResult) -> None:
    from .flows import compiler_flow
    from .fold import feasible, replace_atoms
    from .normal import C as _C
    from .normal import V as _V
    from .normal import show as _show
    from .pyflow import single_atom as _sa

    # which method computes the column: the callee of the token_col_start keyword
    names = set()
    for name, act in g.actions.items():
        for n in ast.walk(act.node):
            if isinstance(n, ast.keyword) and n.arg == "token_col_start":
                for c in ast.walk(n.value):
                    if isinstance(c, ast.Call) and isinstance(c.func, ast.Attribute) and isinstance(c.func.value, ast.Name) and c.func.value.id == "self":
                        names.add(c.func.attr)
    if not names:
        res.unsure("B2: no parser action passes token_col_start=self.<method>(p, k)")
        return
    fl = compiler_flow(repo, "Parser", "parser.py", inline=lambda n_, f_: n_.startswith("_"), module_funcs=True)
    for mname in sorted(names):
        fn = fl.methods.get(mname)
        if fn is None:
            res.unsure(f"B2: Parser.{mname} not found")
            continue
        prm = [a.arg for a in fn.args.args]
        if len(prm) < 3:
            res.unsure(f"B2: Parser.{mname} does not take (self, p, k)")
            continue
        paths = [p_ for p_ in fl.run(fn, {prm[0]: _V("self"), prm[1]: _V("p"), prm[2]: _V("k")})]
        lexpos_txt = "p.lexpos(k)"

        # the search for the newline: <text>.rfind("\n", 0, lexpos) or <text>[:lexpos].rfind("\n")
        searches: Dict[str, Tuple[Any, ...]] = {}
        window_bad: List[str] = []

        def scan(v: Any) -> None:
            from .normal import Poly as _P
            from .rules_d3 import _atoms_deep

            for a in _atoms_deep(v):
                if a[0] == "mcall" and a[1] in ("rfind", "find", "rindex", "index"):
                    searches[_show(_P.atom(a))] = a

        for p_ in paths:
            if p_.ret is not None:
                scan(p_.ret)
            for k_, _t in p_.guards:
                for x in k_[1:]:
                    if hasattr(x, "terms"):
                        scan(x)
        rf = None
        for txt, a in searches.items():
            args = a[2]
            recv = _sa(args[0]) if args else None
            rest = list(args[1:])
            needle = _sa(rest[0]) if rest else None
            if needle is None or needle[0] != "str" or needle[1] != "\n":
                continue
            if a[1] != "rfind":
                res.unsure(f"B2: Parser.{mname}: newline search `{txt}` is not an rfind")
                return
            if recv is not None and recv[0] == "slice":
                lo, hi = recv[3][0], recv[3][1]
                lo_ok = lo is None or (hasattr(lo, "const_value") and lo.const_value() in (0, None))
                hi_ok = hi is not None and _show(hi) == lexpos_txt
                if len(rest) == 1 and lo_ok and hi_ok:
                    rf = a
                else:
                    window_bad.append(txt)
            elif len(rest) == 3 and rest[1].const_value() == 0 and _show(rest[2]) == lexpos_txt:
                rf = a
            else:
                window_bad.append(txt)
        line_ = fn.lineno
        for txt in window_bad:
            res.inst(part="col-arith", method=mname, search=txt)
            res.bad(Finding("B2", PARSER, line_, f"Parser.{mname}", txt, "the search for the last newline is not the window [0, lexpos(k)) in front of the token: a newline behind the token, or none at all, is found", witness="any definition that is not on the last line", tag=f"{mname}:col-window"))
        if rf is None:
            if not window_bad:
                res.unsure(f"B2: Parser.{mname}: no `rfind('\\n', 0, p.lexpos(k))` recognised in {[_show(p_.ret) for p_ in paths if p_.ret is not None]}")
            continue

        def mk(nl: int, lp: int) -> Any:
            def repl(a: Tuple[Any, ...]) -> Any:
                if a == rf:
                    return _C(nl)
                if a[0] == "mcall" and a[1] == "lexpos" and len(a[2]) == 2 and _show(a[2][0]) == "p" and _show(a[2][1]) == "k":
                    return _C(lp)
                return None

            return repl

        grid = [(nl, nl + d) for nl in (-1, 0, 1, 2, 9, 40) for d in (1, 2, 5, 33)]
        n_ok = 0
        reported = False
        for nl, lp in grid:
            repl = mk(nl, lp)
            live, unfolded = feasible([p_ for p_ in paths], repl)
            live = [p_ for p_ in live if p_.done == "return" and p_.ret is not None]
            if unfolded or len(live) != 1:
                res.unsure(f"B2: Parser.{mname}: paths do not fold for (newline at {nl}, token at {lp}): {len(live)} live, unfolded {unfolded[:2]}")
                break
            got = replace_atoms(live[0].ret, repl).const_value()
            if got is None:
                res.unsure(f"B2: Parser.{mname}: `{_show(live[0].ret)}` does not fold for (newline at {nl}, token at {lp})")
                break
            want = lp - nl
            if got != want:
                if not reported:
                    where_ = "no newline in front of it (first line of the file)" if nl < 0 else f"the last newline at offset {nl}"
                    res.bad(Finding("B2", PARSER, getattr(live[0].ret_node, "lineno", line_), f"Parser.{mname}", _show(live[0].ret), f"a token at offset {lp} with {where_} is recorded at column {got}; the exact (1-based, as on every other line) column is {want}", witness="proto a; message A {}   -> A.token_col_start == 17, the name stands at column 18" if nl < 0 else f"a name {lp - nl} characters into its line", tag=f"{mname}:col-arith:" + ("first-line" if nl < 0 else "general")))
                    reported = True
                continue
            n_ok += 1
        res.inst(part="col-arith", method=mname, returns=[_show(p_.ret) for p_ in paths if p_.ret is not None], grid=len(grid), exact=n_ok)


def _fstring_shape(e: ast.AST) -> str:
    if isinstance(e, ast.JoinedStr):
        out = ""
        for v in e.values:
            if isinstance(v, ast.Constant):
                out += str(v.value)
            elif isinstance(v, ast.FormattedValue):
                out += "{" + src_of(v.value) + "}"
        return out
    if isinstance(e, ast.BinOp) and isinstance(e.op, ast.Add):
        return _fstring_shape(e.left) + _fstring_shape(e.right)
    if isinstance(e, ast.Constant):
        return str(e.value)
    return "{" + src_of(e) + "}"


def regex_may_match_newline(parsed: Any) -> bool:
    import re._constants as C  # type: ignore

    def item(op: Any, av: Any) -> bool:
        name = str(op)
        if name == "LITERAL":
            return av == 10
        if name == "NOT_LITERAL":
            return av != 10
        if name == "ANY":
            return False  # no DOTALL in ply's master regex
        if name == "IN":
            neg = False
            members = []
            for o, a in av:
                if str(o) == "NEGATE":
                    neg = True
                else:
                    members.append((o, a))
            hit = any(set_member_matches_nl(o, a) for o, a in members)
            return (not hit) if neg else hit
        if name == "CATEGORY":
            return "SPACE" in str(av) and "NOT" not in str(av) or ("NOT_DIGIT" in str(av)) or ("NOT_WORD" in str(av))
        if name in ("MAX_REPEAT", "MIN_REPEAT", "POSSESSIVE_REPEAT"):
            return seq(av[2])
        if name == "SUBPATTERN":
            return seq(av[3])
        if name == "BRANCH":
            return any(seq(b) for b in av[1])
        if name in ("AT",):
            return False
        if name in ("ASSERT", "ASSERT_NOT"):
            return False
        if name == "GROUPREF":
            return True
        return True  # unknown op: be conservative

    def set_member_matches_nl(o: Any, a: Any) -> bool:
        n = str(o)
        if n == "LITERAL":
            return a == 10
        if n == "RANGE":
            return a[0] <= 10 <= a[1]
        if n == "CATEGORY":
            s = str(a)
            return ("SPACE" in s and "NOT" not in s) or "NOT_DIGIT" in s or "NOT_WORD" in s
        return True

    def seq(p: Any) -> bool:
        return any(item(op, av) for op, av in p)

    return seq(parsed)


# --------------------------------------------------------------------------
# beliefs (shared with rule A1)
# --------------------------------------------------------------------------


def load_beliefs() -> Dict[str, Dict[str, str]]:
    import json

    from .core import VERIF

    p = VERIF / "beliefs.json"
    if not p.exists():
        return {}
    data = json.loads(p.read_text())
    return {norm_belief_key(b["key"]): b for b in data.get("beliefs", [])}


def norm_belief_key(key: str) -> str:
    """A1 keys name the raising construct; what an f-string interpolates is
    not part of the identity (locals get renamed)."""
    import re

    parts = key.split("|", 4)
    if len(parts) == 5 and parts[0] == "A1":
        parts[4] = re.sub(r"\{[^{}]*\}", "{}", parts[4])
    return "|".join(parts)


# --------------------------------------------------------------------------
# value kinds of actions (used by B3 and family C rules)
# --------------------------------------------------------------------------


def action_value_kind(g: Grammar, lhs: str, _seen: Optional[Set[str]] = None) -> Set[str]:
    """Names of the classes (or 'int','str','bool','list','None') an action
    may assign to p[0] for nonterminal lhs."""
    seen = _seen or set()
    if lhs in seen:
        return set()
    seen.add(lhs)
    act = g.action_of(lhs)
    if act is None:
        return {"?"}
    kinds: Set[str] = set()
    fn = act.node
    stores = [n for n in ast.walk(fn) if isinstance(n, ast.Assign) and any(_is_p0(t) for t in n.targets)]
    helper_called = any(
        isinstance(n, ast.Call) and isinstance(n.func, ast.Attribute) and n.func.attr == "util_parse_sequence" for n in ast.walk(fn)
    )
    if helper_called:
        return {"list"}
    if not stores:
        return {"None"}
    alts = [alt for (l, alt) in g.alts_of_action(act.name) if l == lhs]
    for st in stores:
        kinds |= _expr_kind(g, st.value, fn, alts, seen, st)
    return kinds


def _is_p0(t: ast.AST) -> bool:
    return isinstance(t, ast.Subscript) and isinstance(t.value, ast.Name) and t.value.id == "p" and isinstance(t.slice, ast.Constant) and t.slice.value == 0


def _expr_kind(g: Grammar, e: ast.AST, fn: ast.FunctionDef, alts: List[List[str]], seen: Set[str], at: ast.AST) -> Set[str]:
    if isinstance(e, ast.Subscript) and isinstance(e.value, ast.Name) and e.value.id == "p":
        out: Set[str] = set()
        live = live_alts(at, fn, [("", a) for a in alts])
        for _, alt in live:
            k = eval_int(e.slice, len(alt) + 1, fn)
            if k is None or not (1 <= k <= len(alt)):
                continue
            s = alt[k - 1]
            if g.is_terminal(s):
                out |= token_value_kind(g, s)
            else:
                out |= action_value_kind(g, s, set(seen))
        return out
    if isinstance(e, ast.Call):
        f = e.func
        if isinstance(f, ast.Name):
            if f.id == "int":
                return {"int"}
            if f.id[:1].isupper():
                return {f.id}
        if isinstance(f, ast.Attribute):
            if f.attr == "from_value" and isinstance(f.value, ast.Name):
                return {f.value.id}
            if f.attr in ("parse_child",):
                return {"Proto"}
            if f.attr in ("current_scope",):
                # the scope on top of the stack is the one the sibling open_* action pushed
                out2: Set[str] = set()
                lhs_names = {p.lhs for p in (g.action_of_node(fn).prods if g.action_of_node(fn) else [])}
                for prod in g.prods.values():
                    for alt in prod.alts:
                        for i, s in enumerate(alt):
                            if s in lhs_names and i > 0 and alt[i - 1].startswith("open_"):
                                oa = g.action_of(alt[i - 1])
                                if oa is not None:
                                    for n in ast.walk(oa.node):
                                        if isinstance(n, ast.Call) and isinstance(n.func, ast.Attribute) and n.func.attr == "push_scope" and n.args:
                                            a0 = n.args[0]
                                            vals = [a0] if not isinstance(a0, ast.Name) else _assigned_values(a0.id, oa.node)
                                            for v in vals:
                                                if isinstance(v, ast.Call) and isinstance(v.func, ast.Name):
                                                    out2.add(v.func.id)
                return out2 or {"Scope"}
            if f.attr == "unwrap":
                return {"value"}
            if f.attr == "join":
                return {"str"}
    if isinstance(e, ast.BinOp):
        return {"int"}
    if isinstance(e, ast.Compare):
        return {"bool"}
    if isinstance(e, ast.Name):
        vals = _assigned_values(e.id, fn)
        out = set()
        for v in vals:
            out |= _expr_kind(g, v, fn, alts, seen, at)
        return out or {"?"}
    if isinstance(e, ast.IfExp):
        return _expr_kind(g, e.body, fn, alts, seen, at) | _expr_kind(g, e.orelse, fn, alts, seen, at)
    if isinstance(e, ast.Constant):
        return {type(e.value).__name__ if e.value is not None else "None"}
    return {"?"}


def token_value_kind(g: Grammar, tok: str) -> Set[str]:
    if tok.startswith(("'", '"')):
        return {"str"}
    rx_fn = g.t_rules.get(tok)
    if rx_fn is None or rx_fn[1] is None:
        return {"str"}
    fn = rx_fn[1]
    for n in ast.walk(fn):
        if isinstance(n, ast.Assign) and any(isinstance(t, ast.Attribute) and t.attr == "value" for t in n.targets):
            v = n.value
            if isinstance(v, ast.Call) and isinstance(v.func, ast.Name):
                if v.func.id == "int":
                    return {"int"}
                return {v.func.id}
            if isinstance(v, ast.Compare):
                return {"bool"}
            if isinstance(v, ast.Name):
                return {"str"}
    return {"str"}


# --------------------------------------------------------------------------
# B3 scope matrix
# --------------------------------------------------------------------------

ALLOWED_ITEMS = {
    # scope nonterminal -> (item nonterminal, allowed kinds, structural symbols)
    "global_scope_definition_unit": {"import", "option", "alias", "const", "enum", "message", "proto", "comment", "newline"},
    "message_item": {"option", "enum", "message_field", "message", "message_item_unsupported", "comment", "newline"},
    "enum_item": {"enum_field", "enum_item_unsupported", "comment", "newline"},
}


@rule("B3", "scope matrix: what the grammar lets into a scope is either allowed there or rejected by the *_item_unsupported action")
def b3(repo: Repo) -> RuleResult:
    from .pymodel import get_model

    res = RuleResult("B3", floor=15)
    g = get_grammar(repo)
    model = get_model(repo)
    parser_error = model.cls("ParserError", "errors.py")

    for nt, allowed in ALLOWED_ITEMS.items():
        if nt not in g.prods:
            res.unsure(f"B3: nonterminal {nt} vanished")
            continue
        for alt in g.prods[nt].alts:
            res.inst(part="matrix", scope=nt, alt=" ".join(alt))
            if len(alt) != 1 or alt[0] not in allowed:
                res.bad(
                    Finding(
                        "B3", "compiler/bitproto/grammars.py", 0, nt, f"{nt} : {' '.join(alt)}",
                        f"the grammar admits `{' '.join(alt)}` directly in this scope; the language allows only {sorted(allowed)}",
                        witness=f"a schema with a `{' '.join(alt)}` in that scope is accepted instead of rejected",
                        tag=f"{nt}:{' '.join(alt)}",
                    )
                )

    for uns in ("message_item_unsupported", "enum_item_unsupported"):
        act = g.action_of(uns)
        if act is None or uns not in g.prods:
            res.unsure(f"B3: {uns} vanished")
            continue
        fn = act.node
        # what the action does for a p[1] of a given class: every path must end in a ParserError
        from .emit import class_decider
        from .flows import compiler_flow
        from .normal import V as _V

        def rejected_as(kind: str) -> Tuple[Optional[bool], str]:
            """(every path raises a ParserError subclass, what was seen)"""
            try:
                fl = compiler_flow(repo, "Parser", "parser.py", inline=lambda n_, f_: n_.startswith("_"), decide=class_decider(repo, {"p[1]": kind}), module_funcs=True)
                prm = [a_.arg for a_ in fn.args.args]
                paths = fl.run(fn, {prm[0]: _V("self"), prm[1]: _V("p")})
            except Inconclusive as e:
                return None, str(e)
            seen = []
            ok = bool(paths)
            for p_ in paths:
                if p_.done != "raise":
                    ok = False
                    seen.append("returns normally")
                    continue
                rs = [e.name for e in p_.effects if e.kind == "raise"]
                cname = rs[-1].split(".")[0] if rs else ""
                cands = [k_ for k_ in model.all_classes() if k_.name == cname]
                seen.append(cname)
                if not cands or not model.is_subclass(cands[0], parser_error):
                    if any(k_[0] == "isinstance" for k_, _ in p_.guards):
                        return None, f"an isinstance test on the path is not decided by the class {kind}: {p_.guard_text()}"
                    ok = False
            return ok, ", ".join(sorted(set(seen)))

        for alt in g.prods[uns].alts:
            if len(alt) != 1:
                res.unsure(f"B3: {uns} alternative `{' '.join(alt)}` is not a single symbol")
                continue
            s = alt[0]
            kinds = action_value_kind(g, s)
            res.inst(part="unsupported", scope=uns, symbol=s, kinds=sorted(kinds))
            if kinds == {"None"}:
                # the symbol's own action must reject outside file scope
                a2 = g.action_of(s)
                ok = False
                if a2 is not None:
                    for n in ast.walk(a2.node):
                        if isinstance(n, ast.If) and "isinstance(scope, Proto)" in src_of(n.test) and n.orelse and isinstance(n.orelse[-1], ast.Raise):
                            ok = True
                        if isinstance(n, ast.If) and "not isinstance(" in src_of(n.test) and "Proto" in src_of(n.test) and n.body and isinstance(n.body[-1], ast.Raise):
                            ok = True
                if not ok:
                    res.bad(Finding("B3", PARSER, fn.lineno, f"Parser.{act.name}", f"{uns} : {s}", f"`{s}` yields no value and its own action does not reject it outside file scope, so it is silently accepted here", tag=f"{uns}:{s}"))
                continue
            for k in kinds:
                covered, seen_ = rejected_as(k)
                if covered is None:
                    res.unsure(f"B3: {uns}: `{s}` of kind {k}: {seen_}")
                    continue
                if not covered:
                    res.bad(
                        Finding(
                            "B3", PARSER, fn.lineno, f"Parser.{act.name}", f"{uns} : {s}",
                            f"a `{s}` here has value kind {k}, which no `isinstance(p[1], …): raise <ParserError>` branch covers",
                            witness=f"a `{s}` statement inside that scope is not rejected with its own diagnostic",
                            tag=f"{uns}:{s}:{k}",
                        )
                    )

    # the extensible marker
    quote_users = [(lhs, alt) for lhs, p in g.prods.items() for alt in p.alts if any(s in ('"\'"', "'\\''") for s in alt)]
    res.inst(part="extensible-marker", productions=[f"{l} : {' '.join(a)}" for l, a in quote_users])
    lhss = {l for l, _ in quote_users}
    if lhss != {"optional_extensible_flag"}:
        res.bad(Finding("B3", "compiler/bitproto/grammars.py", 0, "grammar", str(sorted(lhss)), "the extensible marker ' occurs outside optional_extensible_flag, so traditional mode cannot refuse it in one place", tag="quote-productions"))
    act = g.action_of("optional_extensible_flag")
    if act is None:
        res.unsure("B3: optional_extensible_flag action vanished")
    else:
        fn = act.node
        # decided per alternative (len(p) == 2: marker present, len(p) == 1: absent) on the action's paths
        from .flows import compiler_flow as _cf3
        from .fold import by_name as _bn3, lit_value as _lv3
        from .normal import V as _V3

        ok = True
        good = True
        n_store = 0
        try:
            fl3 = _cf3(repo, "Parser", "parser.py", inline=lambda n_, f_: n_.startswith("_"))
            prm3 = [a_.arg for a_ in fn.args.args]
            paths3 = fl3.run(fn, {prm3[0]: _V3("self"), prm3[1]: _V3("p")})
            for L3, present in ((2, True), (1, False)):
                for mode in (True, False):
                    repl3 = _bn3({"self.traditional_mode": int(mode)}, {"len": L3})
                    live = [p_ for p_ in paths3 if all(_lv3(k_, t_, repl3) is not False for k_, t_ in p_.guards)]
                    if any(_lv3(k_, t_, repl3) is None for p_ in live for k_, t_ in p_.guards) or len(live) != 1:
                        res.unsure(f"B3: {act.name}: not decided by (alternative, traditional_mode) for len(p) = {L3}, traditional_mode = {mode}")
                        continue
                    p_ = live[0]
                    raised = p_.done == "raise" and any(e.kind == "raise" and "ExtensibleGrammarFoundInTraditionalMode" in e.name for e in p_.effects)
                    if raised != (present and mode):
                        ok = False
                    if not raised:
                        st3 = [e for e in p_.effects if e.kind == "store" and e.name == prm3[1] and e.args and e.args[0].const_value() == 0]
                        n_store += len(st3)
                        if not st3 or st3[-1].args[1].const_value() != int(present):
                            good = False
        except Inconclusive as e:
            res.unsure(f"B3: {act.name}: {e}")
        if not ok:
            res.bad(Finding("B3", PARSER, fn.lineno, f"Parser.{act.name}", "", "the action does not raise ExtensibleGrammarFoundInTraditionalMode exactly when the marker is present and traditional_mode is set", witness="`bitproto c x.bitproto -O` on a schema with an extensible message is accepted", tag="extensible-guard"))
        res.inst(part="extensible-marker", value_stores=n_store)
        if not good:
            res.bad(Finding("B3", PARSER, fn.lineno, f"Parser.{act.name}", "", "p[0] is not `marker present` (True for the 1-symbol alternative, False for the empty one)", tag="extensible-value"))
    return res


# --------------------------------------------------------------------------
# B4 expression actions and literals
# --------------------------------------------------------------------------

OPS = {"+": ast.Add, "-": ast.Sub, "*": ast.Mult, "/": ast.FloorDiv}
DOCUMENTED_ESCAPES = {"t": "\t", "r": "\r", "n": "\n", "\\": "\\", "'": "'", '"': '"'}


def _regex_single_char(rx: str) -> Optional[str]:
    import re._parser as sre_parse  # type: ignore

    try:
        p = sre_parse.parse(rx)
    except Exception:
        return None
    items = list(p)
    if len(items) == 1 and str(items[0][0]) == "LITERAL":
        return chr(items[0][1])
    return None


@rule("B4", "operators: precedence, associativity, operand order, integer division; literal decoding; token order")
def b4(repo: Repo) -> RuleResult:
    res = RuleResult("B4", floor=10)
    g = get_grammar(repo)

    # precedence
    prec = g.precedence
    res.inst(part="precedence", table=prec)
    level: Dict[str, int] = {}
    assoc: Dict[str, str] = {}
    for i, row in enumerate(prec):
        for t in row[1:]:
            level[t] = i
            assoc[t] = row[0]
    need = ["PLUS", "MINUS", "TIMES", "DIVIDE"]
    if not all(t in level for t in need):
        res.bad(Finding("B4", PARSER, 0, "Parser.precedence", str(prec), "an arithmetic operator has no precedence entry (ply then resolves the conflict as shift: right associative)", witness="const A = 8 - 4 - 2", tag="precedence-missing"))
    else:
        if not (level["PLUS"] == level["MINUS"] and level["TIMES"] == level["DIVIDE"] and level["TIMES"] > level["PLUS"]):
            res.bad(Finding("B4", PARSER, 0, "Parser.precedence", str(prec), "* and / must share one level that binds tighter than the shared level of + and -", witness="const A = 2 + 3 * 4  /  const B = 8 - 2 + 1", tag="precedence-levels"))
        if any(assoc[t] != "left" for t in need):
            res.bad(Finding("B4", PARSER, 0, "Parser.precedence", str(prec), "arithmetic operators must associate to the left", witness="const A = 8 - 4 - 2 (expected 2)", tag="precedence-assoc"))

    # binary productions
    nbin = 0
    for lhs, prod in g.prods.items():
        for alt in prod.alts:
            if len(alt) == 3 and alt[0] == alt[2] == "calculation_expression" and alt[1] in g.tokens:
                nbin += 1
                tok = alt[1]
                rx = g.t_rules.get(tok, (None, None))[0]
                ch = _regex_single_char(rx) if rx else None
                act = g.action_of(lhs)
                res.inst(part="binary", production=f"{lhs} : {' '.join(alt)}", token=tok, char=ch)
                if ch is None or ch not in OPS or act is None:
                    res.unsure(f"B4: operator token {tok} regex {rx!r} is not a single known character")
                    continue
                from .flows import compiler_flow as _cf4
                from .normal import V as _V4
                from .normal import show as _sh4

                try:
                    fl4 = _cf4(repo, "Parser", "parser.py", inline=lambda n_, f_: n_.startswith("_"))
                    prm4 = [a_.arg for a_ in act.node.args.args]
                    vals4 = []
                    for p_ in fl4.run(act.node, {prm4[0]: _V4("self"), prm4[1]: _V4("p")}):
                        if p_.done != "return":
                            continue
                        st4 = [e for e in p_.effects if e.kind == "store" and e.name == prm4[1] and e.args and e.args[0].const_value() == 0]
                        vals4.append(_sh4(st4[-1].args[1]) if st4 else None)
                except Inconclusive as e:
                    res.unsure(f"B4: {act.name}: {e}")
                    continue
                want4 = {"+": ("p[1] + p[3]",), "-": ("p[1] - p[3]",), "*": ("p[1]*p[3]",), "/": ("floordiv(p[1], p[3])",)}[ch]
                ok = bool(vals4) and all(v_ in want4 for v_ in vals4)

                class _S:
                    lineno = act.node.lineno

                stores = [_S()]
                _shown = str(vals4)
                if not ok:
                    res.bad(
                        Finding(
                            "B4", PARSER, stores[0].lineno, f"Parser.{act.name}", _shown,
                            f"the action for `{ch}` must compute p[1] {ch if ch != '/' else '//'} p[3] (operands in order, integer division)",
                            witness={"+": "const A = 2 + 3", "-": "const A = 5 - 3", "*": "const A = 2 * 3", "/": "const A = 9007199254740993 / 1  or  7 / 2"}[ch],
                            tag=f"{act.name}:operator",
                        )
                    )
    if nbin != 4:
        res.unsure(f"B4: {nbin} binary productions found, 4 expected")

    # group production
    for lhs, prod in g.prods.items():
        for alt in prod.alts:
            if len(alt) == 3 and alt[0] == "'('" and alt[2] == "')'":
                act = g.action_of(lhs)
                res.inst(part="group", production=f"{lhs} : {' '.join(alt)}")
                if act is not None:
                    stores = [n for n in ast.walk(act.node) if isinstance(n, ast.Assign) and any(_is_p0(t) for t in n.targets)]
                    if not (len(stores) == 1 and src_of(stores[0].value) == "p[2]"):
                        res.bad(Finding("B4", PARSER, act.node.lineno, f"Parser.{act.name}", "", "a parenthesised expression must evaluate to its inner expression p[2]", witness="const A = (1 + 2) * 3", tag="group"))

    # literals
    def t_value_expr(tok: str) -> Optional[ast.AST]:
        fn = g.t_rules.get(tok, (None, None))[1]
        if fn is None:
            return None
        for n in ast.walk(fn):
            if isinstance(n, ast.Assign) and any(isinstance(t, ast.Attribute) and t.attr == "value" and src_of(t.value) == "t" for t in n.targets):
                return n.value
        return None

    hx = t_value_expr("HEX_LITERAL")
    res.inst(part="literal", token="HEX_LITERAL", value=src_of(hx) if hx else None)
    if hx is None or src_of(hx) not in ("int(t.value, 16)", "int(t.value[2:], 16)", "int(t.value, base=16)", "int(t.value, 0)"):
        res.bad(Finding("B4", LEXER, 0, "Lexer.t_HEX_LITERAL", src_of(hx) if hx else "", "a hexadecimal literal must denote int(text, 16)", witness="const A = 0x1F", tag="hex"))
    iv = t_value_expr("INT_LITERAL")
    res.inst(part="literal", token="INT_LITERAL", value=src_of(iv) if iv else None)
    if iv is None or src_of(iv) not in ("int(t.value)", "int(t.value, 10)", "int(t.value, base=10)"):
        res.bad(Finding("B4", LEXER, 0, "Lexer.t_INT_LITERAL", src_of(iv) if iv else "", "a decimal literal must denote int(text)", witness="const A = 010", tag="int"))
    bv = t_value_expr("BOOL_LITERAL")
    res.inst(part="literal", token="BOOL_LITERAL", value=src_of(bv) if bv else None)
    # the rule's paths, decided for each of the four words the token can be
    ok = False
    try:
        from .normal import V as _Vb
        from .normal import show
        from .pyflow import PyFlow as _PFb, single_atom as _sab, str_of as _sob
        from .pymodel import get_model as _gmb

        lex_mod = _gmb(repo).mod("bitproto/lexer.py")
        lex_cls = lex_mod.classes["Lexer"]
        rule_fn = lex_cls.methods["t_BOOL_LITERAL"].node
        consts_b = dict(lex_mod.assigns)
        consts_b.update(lex_cls.attrs_val)
        for k_c in list(lex_cls.attrs_val):
            consts_b.setdefault(f"Lexer.{k_c}", lex_cls.attrs_val[k_c])
            consts_b.setdefault(f"self.{k_c}", lex_cls.attrs_val[k_c])
        flb = _PFb(funcs={}, methods={}, consts=consts_b, havoc_on=())
        prm_b = [a_.arg for a_ in rule_fn.args.args]
        paths_b = [p_ for p_ in flb.run(rule_fn, {prm_b[0]: _Vb("self"), prm_b[1]: _Vb("t")}) if p_.done == "return"]
        verdicts: Dict[str, set] = {}
        decided = True
        for w in ("true", "yes", "false", "no"):
            for p_ in paths_b:
                feas = True
                for k_, t_ in p_.guards:
                    if k_[0] == "in" and show(k_[1]) == "t.value":
                        if (w in k_[2]) != t_:
                            feas = False
                    elif k_[0] == "contains" and show(k_[2]) == "t.value":
                        ca = _sab(k_[1])
                        while ca is not None and ca[0] == "call" and ca[1] in ("frozenset", "set", "tuple", "list") and len(ca[2]) == 1:
                            ca = _sab(ca[2][0])
                        if ca is None or ca[0] != "tuple" or any(_sob(x) is None for x in ca[1]):
                            decided = False
                            continue
                        if (w in [_sob(x) for x in ca[1]]) != t_:
                            feas = False
                    elif k_[0] in ("eq", "cmp"):
                        decided = False
                if not feas:
                    continue
                val = p_.env.get("t.value")
                verdicts.setdefault(w, set()).add(val.const_value() if val is not None else None)
        ok = decided and verdicts.get("true") == {1} and verdicts.get("yes") == {1} and verdicts.get("false") == {0} and verdicts.get("no") == {0}
        res.inst(part="literal", token="BOOL_LITERAL", denotes={k_: sorted(map(str, v_)) for k_, v_ in verdicts.items()})
    except (Inconclusive, KeyError) as e:
        res.unsure(f"B4: t_BOOL_LITERAL: {e}")
        ok = True
    if not ok:
        res.bad(Finding("B4", LEXER, 0, "Lexer.t_BOOL_LITERAL", src_of(bv) if bv else "", "true/yes must denote True and false/no False", witness="const A = yes", tag="bool"))
    rx = g.t_rules.get("BOOL_LITERAL", ("", None))[0]
    import re as _re

    words = set(_re.findall(r"[a-z]+", rx.replace("\\b", " ")))
    if words != {"true", "false", "yes", "no"}:
        res.bad(Finding("B4", LEXER, 0, "Lexer.t_BOOL_LITERAL", rx, f"boolean literal words are {sorted(words)}, documented: true/false/yes/no", tag="bool-words"))

    # the unescape procedure: one left-to-right scan in which a backslash consumes exactly the character after it
    try:
        from .normal import V as _Ve
        from .normal import show as _she
        from .pyflow import PyFlow as _PFe
        from .pymodel import get_model as _gme

        lm_e = _gme(repo).mod("bitproto/lexer.py")
        lc_e = lm_e.classes["Lexer"]
        fn_e = lc_e.methods["t_STRING_LITERAL"].node
        consts_e = dict(lm_e.assigns)
        consts_e.update(lc_e.attrs_val)
        # sequential replacement passes do not respect escape boundaries ("\\\\t" is a backslash and a t)
        passes = [c_ for c_ in ast.walk(fn_e) if isinstance(c_, ast.Call) and isinstance(c_.func, ast.Attribute) and c_.func.attr in ("replace", "sub", "translate")]
        in_loop = [c_ for c_ in passes if enclosing_loop(c_, fn_e)]
        if in_loop or len(passes) > 1:
            res.bad(Finding("B4", LEXER, (in_loop or passes)[0].lineno, "Lexer.t_STRING_LITERAL", src_of((in_loop or passes)[0]), "escape sequences are decoded by successive replacement passes over the whole text: a pass can pair the second half of one escape with the character after it (an escaped backslash followed by t, r, n or a quote)", witness='const S = "C:\\\\temp"  ->  C:\\<TAB>emp', tag="escapes:passes"))
        else:
            prm_e = [a_.arg for a_ in fn_e.args.args]
            for k_c in list(consts_e):
                consts_e.setdefault(f"Lexer.{k_c}", consts_e[k_c])
            meths_e = {k_m: v_m.node for k_m, v_m in lc_e.methods.items()}
            tops_e = _PFe(funcs={}, methods=meths_e, consts={k_c: v_c for k_c, v_c in consts_e.items() if "escaping_chars" not in k_c}, havoc_on=(), inline_filter=lambda n_, f_: not n_.startswith("t_") and n_ != "current_filepath").run(fn_e, {prm_e[0]: _Ve("self"), prm_e[1]: _Ve("t")})
            verdict_e, why_e, bad_e = _unescape_scan(tops_e)
            res.inst(part="escapes", scan=verdict_e, detail=why_e)
            for msg_e, cons_e in bad_e:
                res.bad(Finding("B4", LEXER, fn_e.lineno, "Lexer.t_STRING_LITERAL", cons_e, msg_e, witness='const S = "a\\tb"', tag="escapes:piece"))
            if not verdict_e and not bad_e:
                res.unsure(f"B4: t_STRING_LITERAL: the unescape loop is not the recognised single scan ({why_e})")
    except (Inconclusive, KeyError) as e:
        res.unsure(f"B4: t_STRING_LITERAL: {e}")
    res.inst(part="escapes", table=g.escaping_chars)
    if g.escaping_chars != DOCUMENTED_ESCAPES:
        res.bad(Finding("B4", LEXER, 0, "Lexer.escaping_chars", repr(g.escaping_chars), "escape table differs from the documented escapes (\\t \\r \\n \\\\ \\' \\\")", witness='const S = "a\\tb"', tag="escapes"))

    # token definition order (ply tries function rules in definition order)
    order = g.t_order
    res.inst(part="token-order", order=order)

    def before(a: str, b: str) -> bool:
        return a in order and b in order and order.index(a) < order.index(b)

    if not before("HEX_LITERAL", "INT_LITERAL"):
        res.bad(Finding("B4", LEXER, 0, "Lexer", "t_HEX_LITERAL / t_INT_LITERAL", "the hex rule must be defined before the decimal rule, else `0x10` lexes as 0 followed by an identifier", witness="const A = 0x10", tag="order-hex"))
    for t in ("BOOL_TYPE", "UINT_TYPE", "INT_TYPE", "BYTE_TYPE", "BOOL_LITERAL"):
        if not before(t, "IDENTIFIER"):
            res.bad(Finding("B4", LEXER, 0, "Lexer", f"t_{t} / t_IDENTIFIER", f"t_{t} must be defined before t_IDENTIFIER, else the word lexes as an identifier", witness="message M { uint8 a = 1 }", tag=f"order-{t}"))
    return res


def _unescape_scan(tops: List[Any], strict_text: Optional[str] = None) -> Tuple[bool, str, List[Tuple[str, str]]]:
    """The unescape procedure as one left-to-right scan: a plain character is copied and advances the
    scan by one; a backslash followed by a table character emits the table entry and advances by two;
    a backslash followed by anything else raises.  Two spellings of the scan are understood: an index
    compared with the length (`while i < len(s)`), and an iterator consumed by the loop and by
    `next()` (`for c in it: ... next(it)`).  Returns (recognised and correct, why not, violations)."""
    from .normal import V as _V
    from .normal import show as _sh
    from .pyflow import single_atom as _sa

    loops = [e for p_ in tops for e in p_.effects if e.kind == "loop" and e.name in ("while", "for")]
    if not loops:
        return False, "no scanning loop found", []
    lp = loops[0]
    tag = lp.op
    subs = list(lp.sub or [])
    bad: List[Tuple[str, str]] = []

    def is_bs(x: Any) -> bool:
        a = _sa(x) if hasattr(x, "terms") else None
        return a is not None and a[0] == "str" and a[1] == "\\"

    # the scan position: index form or iterator form
    idx = None
    it_txt = None
    if lp.name == "while":
        cands = set()
        for sp in subs:
            for v_, val in sp.env.items():
                if "." in v_ or not hasattr(val, "terms"):
                    continue
                d = (val - _V(v_ + tag)).const_value()
                if d is not None and d != 0:
                    cands.add(v_)
        if len(cands) != 1:
            return False, f"scan index not identified (candidates {sorted(cands)})", []
        idx = cands.pop()
    else:
        src = lp.args[0] if lp.args else None
        a = _sa(src) if src is not None and hasattr(src, "terms") else None
        if a is None or a[0] != "call" or a[1] != "iter":
            return False, "the for loop does not run over an explicit iterator, so an escape cannot consume its second character", []
        it_txt = _sh(src)

    seen = {"escape": False, "reject": False, "plain": False}
    why = ""
    for sp in subs:
        bs = None
        cur = None
        known = None
        nxt = None
        for k_, t_ in sp.guards:
            if k_[0] == "eq" and (is_bs(k_[1]) or is_bs(k_[2])):
                bs = t_
                cur = k_[2] if is_bs(k_[1]) else k_[1]
            elif k_[0] == "contains" and "escaping_chars" in _sh(k_[1]):
                known, nxt = t_, k_[2]
            elif k_[0] in ("isnone", "truthy") and hasattr(k_[1], "terms"):
                a = _sa(k_[1])
                if a is not None and a[0] == "mcall" and a[1] == "get" and "escaping_chars" in _sh(a[2][0]) and len(a[2]) == 2:
                    known = (not t_) if k_[0] == "isnone" else t_
                    nxt = a[2][1]
        if bs is None:
            continue
        # how far this iteration moves the scan
        if idx is not None:
            adv = (sp.env.get(idx) - _V(idx + tag)).const_value() if sp.env.get(idx) is not None else None
        else:
            adv = 1 + sum(1 for e in sp.effects if e.kind == "call" and e.name == "next" and e.args and hasattr(e.args[0], "terms") and _sh(e.args[0]) == it_txt)
        # what this iteration emits
        pieces: List[Any] = [e.args[0] for e in sp.effects if e.kind == "call" and e.name == "append" and len(e.args) == 1]
        for v_, val in sp.env.items():
            if "." in v_ or v_ == idx or not hasattr(val, "terms"):
                continue
            d = val - _V(v_ + tag)
            if d.const_value() is None and _sa(d) is not None and (_V(v_ + tag) + d) == val and _sh(val) != _sh(d):
                if _sh(_V(v_ + tag)) in _sh(val):
                    pieces.append(d)
        cur_txt = _sh(cur) if cur is not None else None
        nxt_txt = _sh(nxt) if nxt is not None else None
        # every look at the scanned text on this iteration: at the scan position, or one behind it after a backslash
        import re as _re_s

        texts = [_sh(x) for k_, _t in sp.guards for x in k_[1:] if hasattr(x, "terms")]
        texts += [_sh(v_) for v_ in sp.env.values() if hasattr(v_, "terms")]
        texts += [_sh(x) for e in sp.effects for x in (e.args or []) if hasattr(x, "terms")]
        if idx is not None:
            for tx in texts:
                for m_ in _re_s.finditer(_re_s.escape(f"[{idx}{tag}") + r"(?: ([+-]) (\d+))?\]", tx):
                    off = int(m_.group(2) or 0) * (-1 if m_.group(1) == "-" else 1)
                    if off not in ((0, 1) if bs is True else (0,)):
                        return False, f"the scanned text is read at offset {off} from the scan position" + ("" if bs is True else " without a backslash at the scan position"), []
                if strict_text is not None and f"[{idx}{tag}" in tx and f"{strict_text}[{idx}{tag}" not in tx:
                    return False, f"the scan does not run over `{strict_text}`", []
        else:
            if strict_text is not None and it_txt != f"iter({strict_text})":
                return False, f"the scan does not run over `{strict_text}`", []
            n_next = sum(1 for e in sp.effects if e.kind == "call" and e.name == "next")
            if n_next > (1 if bs is True else 0):
                return False, "the iterator is advanced by next() without a backslash at the scan position, or twice", []
        if idx is not None and cur_txt is not None and not cur_txt.endswith(f"[{idx}{tag}]"):
            return False, f"the character tested against the backslash is `{cur_txt}`, not the one at the scan index", []
        if bs is False:
            if sp.done is None and adv == 1:
                seen["plain"] = True
            elif sp.done is None:
                why = f"a plain character advances the scan by {adv}"
            for pc in pieces:
                if _sh(pc) != cur_txt:
                    bad.append((f"a plain character is copied as `{_sh(pc)}`, not as itself (`{cur_txt}`)", _sh(pc)))
        elif known is True:
            if idx is not None and nxt_txt is not None and not nxt_txt.endswith(f"[{idx}{tag} + 1]"):
                return False, f"the escape character looked up is `{nxt_txt}`, not the one behind the backslash", []
            if idx is None and nxt_txt is not None and nxt_txt != f"next({it_txt})":
                return False, f"the escape character looked up is `{nxt_txt}`, not the next one of the iterator", []
            if sp.done is None and adv == 2:
                seen["escape"] = True
            elif sp.done is None:
                why = f"an escape advances the scan by {adv} characters, not 2"
            for pc in pieces:
                t_pc = _sh(pc)
                if not ("escaping_chars" in t_pc and nxt_txt is not None and nxt_txt in t_pc):
                    bad.append((f"an escape sequence is replaced by `{t_pc}`, not by the table entry of the character behind the backslash", t_pc))
        elif known is False:
            seen["reject"] = sp.done == "raise"
    ok = all(seen.values())
    if not ok and not why:
        why = f"cases seen: {seen}"
    return ok and not bad, why, bad


_IMPORT_PATH_CACHE: Dict[str, Any] = {}


def import_path_analysis(repo: Repo) -> Tuple[List[Dict[str, Any]], List[Finding], List[str], Set[str]]:
    """The file an import statement hands to the child parser, as a value over the path token, on
    every path of p_import with the private helpers inlined (whatever they are called).  Returns
    (instances, findings, inconclusive notes, names of the Parser methods the value is computed in)."""
    key = str(repo.root) + "|" + str(sorted(getattr(repo, "overlay", {}) or {}))
    if key in _IMPORT_PATH_CACHE:
        return _IMPORT_PATH_CACHE[key]
    import re as _re

    from .flows import compiler_flow
    from .normal import V as _V
    from .normal import show as _show

    fl = compiler_flow(repo, "Parser", "parser.py", inline=lambda n_, f_: n_.startswith("_"), module_funcs=True)
    fn = fl.methods.get("p_import")
    insts: List[Dict[str, Any]] = []
    bad: List[Finding] = []
    unsure: List[str] = []
    helpers: Set[str] = set()
    if fn is None:
        out = (insts, bad, ["B5: import path: Parser.p_import vanished"], helpers)
        _IMPORT_PATH_CACHE[key] = out
        return out
    # private helpers p_import reaches through self._x() calls
    todo = [fn]
    while todo:
        f_ = todo.pop()
        for c_ in ast.walk(f_):
            if isinstance(c_, ast.Call) and isinstance(c_.func, ast.Attribute) and isinstance(c_.func.value, ast.Name) and c_.func.value.id == "self" and c_.func.attr.startswith("_") and c_.func.attr in fl.methods and c_.func.attr not in helpers:
                helpers.add(c_.func.attr)
                todo.append(fl.methods[c_.func.attr])
    helpers.add("p_import")
    ACCEPT = {
        "IMP": "absolute path as written",
        "os.path.join(os.path.dirname(self.current_filepath()), IMP)": "relative to the importing file",
        "os.path.join(os.getcwd(), IMP)": "relative to the working directory (string input)",
    }
    prm = [a_.arg for a_ in fn.args.args]
    seen: Set[Tuple[str, Tuple[str, ...]]] = set()
    n_calls = 0
    for p_ in fl.run(fn, {prm[0]: _V("self"), prm[1]: _V("p")}):
        for e in p_.effects:
            if e.kind != "call" or not e.name.startswith("parse") or not e.args or not hasattr(e.args[0], "terms"):
                continue
            n_calls += 1
            raw = _show(e.args[0])
            toks = sorted(set(_re.findall(r"p\[[^\]]+\]", raw)))
            gt_raw = p_.guard_text()
            if len(toks) != 1:
                unsure.append(f"B5: import path: `{raw}` is not a value over one symbol of the import statement")
                continue
            imp = toks[0]
            r_ = raw.replace(imp, "IMP")
            gt = [g_.replace(imp, "IMP") for g_ in gt_raw]
            long_form = any(g_ == "len(p) - 5 == 0" for g_ in gt_raw)
            short_form = any(g_ == "not(len(p) - 5 == 0)" for g_ in gt_raw)
            k_ = (r_, tuple(g_ for g_ in gt if "IMP" in g_ or "current_filepath" in g_) + (imp,) + (("as",) if long_form else ()))
            if k_ in seen:
                continue
            seen.add(k_)
            insts.append({"returns": r_, "symbol": imp, "under": [g_ for g_ in gt if "IMP" in g_ or "current_filepath" in g_][:4]})
            want = {"p[len(p) - 2]"} | ({"p[3]"} if long_form else set()) | ({"p[2]"} if short_form else set())
            if imp not in want:
                if _re.fullmatch(r"p\[\d+\]", imp) and (long_form or short_form):
                    bad.append(Finding("B5", PARSER, fn.lineno, "Parser.p_import", imp, f"the file to import is taken from symbol `{imp}` of `import [name] \"path\"`" + (" with a name" if long_form else " without a name") + ": that is not the path", tag="import-path:symbol"))
                else:
                    unsure.append(f"B5: import path: symbol `{imp}` of the import statement not identified (paths under {gt_raw[:3]})")
                continue
            if r_ not in ACCEPT:
                bad.append(Finding("B5", PARSER, fn.lineno, "Parser.p_import", r_, f"an import can resolve to `{r_}` (path under {gt}): an imported file is the path as written when absolute, otherwise the file of that relative name next to the importing file - a like-named file elsewhere (next to the entry file, in the working directory) is another file with other definitions", witness="drivers/motor.bitproto imports \"common.bitproto\" while another common.bitproto lies next to the entry file", tag="import-path"))
            elif r_ == "IMP" and not any("isabs(IMP)" in g_ and not g_.startswith("not(") for g_ in gt):
                bad.append(Finding("B5", PARSER, fn.lineno, "Parser.p_import", r_, f"the path is used as written on a path that has not established that it is absolute ({gt}): it is then relative to the working directory", tag="import-path:as-written"))
            elif "getcwd" in r_ and not any(g_ == "not(self.current_filepath())" for g_ in gt):
                bad.append(Finding("B5", PARSER, fn.lineno, "Parser.p_import", r_, f"the working directory is used although a file is being parsed ({gt})", tag="import-path:cwd"))
    if n_calls == 0:
        unsure.append("B5: import path: p_import hands no file to a parse call")
    # de-duplicate findings by tag + construct
    uniq: Dict[Tuple[str, str], Finding] = {}
    for f_ in bad:
        uniq.setdefault((f_.tag, f_.construct), f_)
    out = (insts, list(uniq.values()), sorted(set(unsure)), helpers)
    _IMPORT_PATH_CACHE[key] = out
    return out


# --------------------------------------------------------------------------
# B5 definition visibility / name resolution
# --------------------------------------------------------------------------


def _lookup_search(fn: ast.FunctionDef) -> Dict[str, Any]:
    """The search _lookup_referenced_member performs, whichever way it is written:
    {'form', 'node', 'iter' (what is iterated), 'first_hit' (the first non-None
    get_member result is what is returned), 'other_returns'} or {'unknown': why}."""

    def is_none_const(e: Optional[ast.AST]) -> bool:
        return e is None or (isinstance(e, ast.Constant) and e.value is None)

    def has_get_member(e: ast.AST) -> bool:
        return any(isinstance(c, ast.Call) and isinstance(c.func, ast.Attribute) and c.func.attr == "get_member" for c in ast.walk(e))

    loops = [n for n in ast.walk(fn) if isinstance(n, ast.For) and any(has_get_member(st) for st in n.body)]
    rets = [n for n in ast.walk(fn) if isinstance(n, ast.Return)]
    if len(loops) == 1:
        lp = loops[0]
        ok = False
        for r in [n for n in ast.walk(lp) if isinstance(n, ast.Return)]:
            facts = facts_at(r, fn)
            if any((not truth and src_of(t).endswith("is None")) or (truth and src_of(t).endswith("is not None")) for t, truth in facts):
                ok = True
        other = [r for r in rets if not any(r is x for x in ast.walk(lp)) and not is_none_const(r.value)]
        return {"form": "loop", "node": lp, "iter": lp.iter, "first_hit": ok, "other_returns": other}
    if loops:
        return {"unknown": f"{len(loops)} loops call get_member"}
    # generator form: next((x for x in <results> if x is not None), None) with <results> = (scope.get_member(*names) for scope in <iterable>)
    local: Dict[str, ast.AST] = {}
    for n in ast.walk(fn):
        if isinstance(n, ast.Assign) and len(n.targets) == 1 and isinstance(n.targets[0], ast.Name):
            local[n.targets[0].id] = n.value

    def deref(e: ast.AST) -> ast.AST:
        seen = 0
        while isinstance(e, ast.Name) and e.id in local and seen < 5:
            e = local[e.id]
            seen += 1
        return e

    nexts = [r for r in rets if isinstance(r.value, ast.Call) and isinstance(r.value.func, ast.Name) and r.value.func.id == "next" and r.value.args]
    if len(nexts) != 1:
        return {"unknown": "neither a single loop over scopes nor a single next(...) over a generator"}
    call = nexts[0].value
    outer = deref(call.args[0])
    if not isinstance(outer, (ast.GeneratorExp, ast.ListComp)) or len(outer.generators) != 1:
        return {"unknown": f"`{src_of(call)}` does not draw from a generator expression"}
    g0 = outer.generators[0]
    first_hit = len(call.args) == 2 and is_none_const(call.args[1])
    if has_get_member(outer.elt):
        # one generator: (scope.get_member(..) for scope in REV if ...) -> the filter cannot see the result: not a first-non-None search
        inner_iter = g0.iter
        first_hit = False
        node = outer
    else:
        inner = deref(g0.iter)
        if not isinstance(inner, (ast.GeneratorExp, ast.ListComp)) or len(inner.generators) != 1 or not has_get_member(inner.elt) or inner.generators[0].ifs:
            return {"unknown": f"`{src_of(g0.iter)}` is not a plain generator of get_member results"}
        v = g0.target.id if isinstance(g0.target, ast.Name) else None
        flt_ok = len(g0.ifs) == 1 and src_of(g0.ifs[0]).replace(" ", "") in (f"{v}isnotNone",)
        first_hit = first_hit and flt_ok and isinstance(outer.elt, ast.Name) and outer.elt.id == v
        inner_iter = inner.generators[0].iter
        node = inner
    other = [r for r in rets if r is not nexts[0] and not is_none_const(r.value)]
    return {"form": "generator", "node": node, "iter": deref(inner_iter), "first_hit": first_hit, "other_returns": other}


@rule("B5", "definitions become visible when complete; lookup walks the current file's scopes innermost first; dotted names descend through scopes")
def b5(repo: Repo) -> RuleResult:
    res = RuleResult("B5", floor=8)
    g = get_grammar(repo)
    assert g.parser_cls is not None
    methods = {st.name: st for st in g.parser_cls.body if isinstance(st, ast.FunctionDef)}
    for an, act in g.actions.items():
        methods[an] = act.node  # with procedure-like helpers spliced in

    # (a) push_member of scope definitions only in the whole-production action
    for name, fn in methods.items():
        for n in ast.walk(fn):
            if isinstance(n, ast.Call) and isinstance(n.func, ast.Attribute) and n.func.attr == "push_member":
                res.inst(part="push-site", action=name, call=src_of(n))
                if name.startswith("p_open_"):
                    res.bad(Finding("B5", PARSER, n.lineno, f"Parser.{name}", src_of(n), "a scope is made a member of its parent when it is opened; its own body could then refer to it and later duplicates are checked against an unfinished definition", witness="message A { A a = 1 }", tag=f"{name}:push_member"))
    for nt in ("message", "enum"):
        act = g.action_of(nt)
        if act is None:
            res.unsure(f"B5: action of {nt} vanished")
            continue
        has = any(isinstance(n, ast.Call) and isinstance(n.func, ast.Attribute) and n.func.attr == "push_member" for n in ast.walk(act.node))
        if not has:
            res.bad(Finding("B5", PARSER, act.node.lineno, f"Parser.{act.name}", "", f"a completed {nt} is never pushed into its parent scope (it can then not be referenced)", tag=f"{nt}:no-push"))

    # (b) lookup order
    fn = methods.get("_lookup_referenced_member")
    if fn is None:
        res.unsure("B5: Parser._lookup_referenced_member vanished")
    else:
        sr = _lookup_search(fn)
        res.inst(part="lookup", form=sr.get("form"), iterable=src_of(sr["iter"]) if sr.get("iter") is not None else None)
        if "unknown" in sr:
            res.unsure(f"B5: _lookup_referenced_member: {sr['unknown']}")
        else:
            it = sr["iter"]
            lp = sr["node"]
            reversed_ok = False
            src = None
            if isinstance(it, ast.Subscript) and isinstance(it.slice, ast.Slice) and it.slice.lower is None and it.slice.upper is None and it.slice.step is not None and src_of(it.slice.step) == "-1":
                reversed_ok, src = True, it.value
            elif isinstance(it, ast.Call) and isinstance(it.func, ast.Name) and it.func.id == "reversed" and len(it.args) == 1:
                reversed_ok, src = True, it.args[0]
            if not reversed_ok:
                res.bad(Finding("B5", PARSER, lp.lineno, "Parser._lookup_referenced_member", src_of(it), "scopes are not searched innermost first (the stack must be walked in reverse)", witness="message A { enum E : uint1 {} message B { enum E : uint2 {}  E e = 1 } }  -> e would be 1 bit wide", tag="lookup-order"))
            else:
                s = src_of(src) if src is not None else ""
                if "scope_stack_in_current_proto" not in s:
                    res.bad(Finding("B5", PARSER, lp.lineno, "Parser._lookup_referenced_member", s, "lookup walks more than the current file's scopes (an importing file's names would leak into the imported file)", tag="lookup-slice"))
            if not sr["first_hit"]:
                res.bad(Finding("B5", PARSER, lp.lineno, "Parser._lookup_referenced_member", "", "the loop does not return the first scope's hit", tag="lookup-first"))
            for r in sr["other_returns"]:
                res.bad(Finding("B5", PARSER, r.lineno, "Parser._lookup_referenced_member", src_of(r), "a definition is returned by a lookup outside the innermost-first scope walk: a file-level (or otherwise farther) definition can win over a nearer one that shadows it", witness="message Outer { enum E : uint2 {} message In { E e = 1 } } with a file-level enum E : uint1 {}", tag="lookup-bypass"))
            # names = identifier.split(".")
            split_ok = any(isinstance(n, ast.Call) and isinstance(n.func, ast.Attribute) and n.func.attr == "split" and n.args and isinstance(n.args[0], ast.Constant) and n.args[0].value == "." for n in ast.walk(fn))
            if not split_ok:
                res.bad(Finding("B5", PARSER, fn.lineno, "Parser._lookup_referenced_member", "", "dotted identifiers are not split on '.'", tag="lookup-split"))
    fn = methods.get("scope_stack_in_current_proto")
    if fn is None:
        res.unsure("B5: scope_stack_in_current_proto vanished")
    else:
        txt = " ".join(src_of(s) for s in fn.body)
        res.inst(part="lookup", slice=txt[:120])
        if not ("scope_stack_init_length" in txt and ("self.scope_stack[start:]" in txt or "self.scope_stack[self.scope_stack_init_length:]" in txt)):
            res.bad(Finding("B5", PARSER, fn.lineno, "Parser.scope_stack_in_current_proto", txt, "the slice of the scope stack belonging to the current file must start at scope_stack_init_length and run to the top", tag="current-proto-slice"))
    fn = methods.get("push_scope")
    if fn is not None:
        txt = " ".join(src_of(s) for s in fn.body)
        res.inst(part="lookup", push=txt)
        if ".append(" not in txt:
            res.bad(Finding("B5", PARSER, fn.lineno, "Parser.push_scope", txt, "scopes must be pushed at the end of the stack (the lookup treats the end as innermost)", tag="push-scope"))

    # (c) eager resolution, resolved object stored: on every path that returns, the identifier p[1] is
    # looked up exactly once, at the point of use, and p[0] is the definition that lookup returned
    try:
        from .flows import compiler_flow as _cfc
        from .normal import V as _Vc
        from .normal import show as _shc

        flc = _cfc(repo, "Parser", "parser.py", inline=lambda n_, f_: n_.startswith("_") and n_ not in ("_lookup_referenced_member", "_get_col"), module_funcs=True)
        for aname in ("p_type_reference", "p_constant_reference"):
            fn = flc.methods.get(aname)
            if fn is None:
                res.unsure(f"B5: {aname} vanished")
                continue
            prm_c = [a_.arg for a_ in fn.args.args]
            rets = [p_ for p_ in flc.run(fn, {prm_c[0]: _Vc("self"), prm_c[1]: _Vc("p")}) if p_.done == "return"]
            res.inst(part="resolution", action=aname, returning_paths=len(rets))
            if not rets:
                res.unsure(f"B5: {aname}: no returning path")
                continue
            want = "self._lookup_referenced_member(p[1])"
            done_ = set()
            for p_ in rets:
                looks = [e for e in p_.effects if e.kind == "call" and e.name == "_lookup_referenced_member"]
                stores = [e for e in p_.effects if e.kind == "store" and e.name == "p" and len(e.args) == 2 and hasattr(e.args[0], "terms") and e.args[0].const_value() == 0]
                gt = p_.guard_text()
                if (len(looks) != 1 or not looks[0].args or _shc(looks[0].args[0]) != "p[1]") and "lookup" not in done_:
                    done_.add("lookup")
                    res.bad(Finding("B5", PARSER, fn.lineno, f"Parser.{aname}", ", ".join(_shc(e.args[0]) if e.args else "()" for e in looks), f"the reference is not looked up from its own identifier p[1] at the point of use (path under {gt[:3]}: {len(looks)} lookup(s))", tag=f"{aname}:lookup"))
                    continue
                if len(stores) != 1 and "value" not in done_:
                    done_.add("value")
                    res.bad(Finding("B5", PARSER, fn.lineno, f"Parser.{aname}", "", f"the value of the reference is not the definition that was looked up (p[0] is stored {len(stores)} times on the path under {gt[:3]})", tag=f"{aname}:value"))
                    continue
                if stores and _shc(stores[0].args[1]) != want and "second-source" not in done_:
                    done_.add("second-source")
                    res.bad(Finding("B5", PARSER, fn.lineno, f"Parser.{aname}", _shc(stores[0].args[1]), f"the value of the reference is `{_shc(stores[0].args[1])}` on the path under {gt[:3]}: the reference is not (always) resolved by a fresh lookup at the point of use, so a definition declared in the meantime (shadowing) is missed", witness="message A { uint8 x = 1 ... } a scope that uses N (resolving outward), then declares its own N, then uses N again", tag=f"{aname}:second-source"))
    except Inconclusive as e:
        res.unsure(f"B5: resolution: {e}")

    # (d) import name
    fn = methods.get("p_import")
    if fn is None:
        res.unsure("B5: p_import vanished")
    else:
        alts = g.alts_of_action("p_import")
        from .fold import by_name, feasible
        from .normal import show
        from .pyflow import PyFlow, single_atom

        try:
            flow = PyFlow(funcs={}, havoc_on=(), pure=("len", "current_proto", "current_scope", "current_filepath", "_get_child_filepath", "_check_parsing_file", "protos", "samefile"))
            paths = [p_ for p_ in flow.run(fn) if p_.done == "return"]
        except Inconclusive as e:
            paths = []
            res.unsure(f"B5: p_import: {e}")
        res.inst(part="import-name", paths=len(paths))
        for lhs, alt in alts:
            L = len(alt) + 1
            ok_paths, unfolded = feasible(paths, by_name({}, {"len": L}), ignore=lambda k: not any("len(p)" in show(x) for x in k[1:] if hasattr(x, "terms")))
            got = set()
            for p_ in ok_paths:
                pushes = [e for e in p_.effects if e.kind == "call" and e.name == "push_member"]
                if len(pushes) != 1 or len(pushes[0].args) < 2:
                    got.add("<no explicit name>")
                    continue
                member, nm = pushes[0].args[0], pushes[0].args[1]
                if show(nm) == "p[2]":
                    got.add("p[2]")
                elif single_atom(nm) is not None and single_atom(nm)[0] == "attr" and single_atom(nm)[2] == "name" and single_atom(nm)[1] == member:
                    got.add("child.name")
                elif show(nm) == show(member) + ".name":
                    got.add("child.name")
                else:
                    got.add(show(nm))
            want = "p[2]" if (len(alt) >= 3 and alt[1] == "IDENTIFIER") else "child.name"
            if got == {want}:
                continue
            if not got:
                res.unsure(f"B5: p_import: no path for `{lhs} : {' '.join(alt)}`")
            elif "<no explicit name>" in got:
                res.bad(Finding("B5", PARSER, fn.lineno, "Parser.p_import", "", "the imported proto must be pushed under an explicit name (its own name, or the `as` name)", tag="import-push"))
            else:
                d = sorted(got)[0]
                res.bad(Finding("B5", PARSER, fn.lineno, "Parser.p_import", str(sorted(got)), f"for `{lhs} : {' '.join(alt)}` the proto is pushed under `{d}`, expected `{want}`", witness='import lib "lib.bitproto"  then  lib.Type', tag=f"import-name:{L}"))

    # (g) no scope class rewrites the dotted path on its way to the member tables
    try:
        from .flows import compiler_flow as _cfg
        from .normal import V as _Vg
        from .pymodel import get_model as _gmg

        mg_ = _gmg(repo)
        scope_c = mg_.cls("Scope", "_ast.py")
        n_over = 0
        for c_ in mg_.all_classes():
            if not c_.rel.endswith("_ast.py") or c_ is scope_c or not mg_.is_subclass(c_, scope_c) or "get_member" not in c_.methods:
                continue
            n_over += 1
            fo_ = c_.methods["get_member"]
            va = fo_.node.args.vararg.arg if fo_.node.args.vararg is not None else None
            env_g = {fo_.node.args.args[0].arg: _Vg("self")}
            if va:
                env_g[va] = _Vg("names")
            flg = _cfg(repo, c_.name, "_ast.py", inline=lambda n_, f_: False)
            for p_ in flg.run(fo_.node, env_g):
                if p_.done != "return" or p_.ret is None:
                    continue
                r_ = show(p_.ret)
                res.inst(part="lookup", override=fo_.qual, returns=r_)
                if r_ == "None":
                    continue
                if r_ not in ("super().get_member(__star__(names))", "self.members.get(names[0])"):
                    res.bad(Finding("B5", fo_.rel, fo_.node.lineno, fo_.qual, r_, f"{c_.name} overrides get_member and looks up `{r_}` (path under {p_.guard_text()}): the dotted path a schema wrote is rewritten before the member tables are asked, so a name can denote another definition than the one the scope rules give", witness="import sensor \"v1.bitproto\" inside `proto sensor`: sensor.Reading denotes the importer's own Reading", tag=f"{fo_.qual}:path-rewritten"))
        res.inst(part="lookup", get_member_overrides=n_over)
    except Inconclusive as e:
        res.unsure(f"B5: get_member overrides: {e}")

    # (f) what file an import statement denotes: the path as written when absolute, otherwise relative to
    # the directory of the importing file (the working directory only when a string is parsed)
    try:
        insts_f, bad_f, unsure_f, _helpers_f = import_path_analysis(repo)
        for i_ in insts_f:
            res.inst(part="import-path", **i_)
        for f_ in bad_f:
            res.bad(f_)
        for u_ in unsure_f:
            res.unsure(u_)
    except Inconclusive as e:
        res.unsure(f"B5: import path: {e}")

    # (e) the reverse lookup the generators qualify imported definitions with: a name is
    # returned only for the entry that IS the member (same object), never for a like-named one
    try:
        from .flows import compiler_flow
        from .normal import V as _V
        from .pyflow import show_lit
        from .pymodel import get_model as _gm

        m_ = _gm(repo)
        fi = m_.func("_ast.py", "Scope.get_name_by_member")
        prm = [a.arg for a in fi.node.args.args]
        fl = compiler_flow(repo, "Scope", "_ast.py")
        paths = fl.run(fi.node, {prm[0]: _V("self"), prm[1]: _V("member")})
        n_named = 0
        for p_ in paths:
            if p_.done != "return" or p_.ret is None or show(p_.ret) == "None":
                continue
            n_named += 1
            # generator form: next((name for name, member_ in self.members.items() if member_ is member), None)
            rn = getattr(p_, "ret_node", None)
            rv = rn.value if isinstance(rn, ast.Return) else rn
            if isinstance(rv, ast.Call) and isinstance(rv.func, ast.Name) and rv.func.id == "next" and rv.args and isinstance(rv.args[0], ast.Name):
                # the generator bound once to a local:  matched = (...); return next(matched, None)
                bg_ = [a_ for a_ in ast.walk(fi.node) if isinstance(a_, (ast.Assign, ast.AnnAssign)) and a_.value is not None and any(isinstance(t_, ast.Name) and t_.id == rv.args[0].id for t_ in (a_.targets if isinstance(a_, ast.Assign) else [a_.target]))]
                if len(bg_) == 1 and isinstance(bg_[0].value, (ast.GeneratorExp, ast.ListComp)):
                    rv = ast.copy_location(ast.Call(func=rv.func, args=[bg_[0].value] + list(rv.args[1:]), keywords=rv.keywords), rv)
            if isinstance(rv, ast.Call) and isinstance(rv.func, ast.Name) and rv.func.id == "next" and rv.args and isinstance(rv.args[0], (ast.GeneratorExp, ast.ListComp)):
                ge = rv.args[0]
                g0 = ge.generators[0] if len(ge.generators) == 1 else None
                okg = False
                it_src = g0.iter if g0 is not None else None
                if isinstance(it_src, ast.Name):
                    # a local bound once to the iterable
                    b_ = [a_ for a_ in ast.walk(fi.node) if isinstance(a_, ast.Assign) and len(a_.targets) == 1 and isinstance(a_.targets[0], ast.Name) and a_.targets[0].id == it_src.id]
                    if len(b_) == 1:
                        it_src = b_[0].value
                if g0 is not None and isinstance(g0.target, ast.Tuple) and len(g0.target.elts) == 2 and all(isinstance(x, ast.Name) for x in g0.target.elts) and it_src is not None and src_of(it_src).replace(" ", "") == "self.members.items()":
                    kn, vn = g0.target.elts[0].id, g0.target.elts[1].id
                    idt = [c_ for c_ in g0.ifs if isinstance(c_, ast.Compare) and len(c_.ops) == 1 and isinstance(c_.ops[0], ast.Is) and {src_of(c_.left), src_of(c_.comparators[0])} == {vn, prm[1]}]
                    okg = bool(idt) and isinstance(ge.elt, ast.Name) and ge.elt.id == kn
                res.inst(part="reverse-lookup", returns=src_of(rv), ok=okg)
                if okg:
                    continue
                if g0 is None or not isinstance(ge.elt, ast.Name):
                    res.unsure(f"B5: get_name_by_member: `{src_of(rv)}` is not a recognised search")
                    continue
            ident = [k for k, t in p_.guards if t and k[0] == "is" and any(show(x) == "member" for x in k[1:] if hasattr(x, "terms"))]
            other = None
            for k in ident:
                other = [x for x in k[1:] if hasattr(x, "terms") and show(x) != "member"]
            # the value compared by identity and the name returned come from the same entry of self.members
            ok = bool(ident)
            if ok:
                loops = [e for e in p_.effects if e.kind == "loop"]
                ok = False
                for lp in loops:
                    t_ = getattr(lp.node, "target", None)
                    it_ = getattr(lp.node, "iter", None)
                    if isinstance(t_, ast.Tuple) and len(t_.elts) == 2 and all(isinstance(x, ast.Name) for x in t_.elts) and it_ is not None and src_of(it_).replace(" ", "") in ("self.members.items()",):
                        kn, vn = t_.elts[0].id, t_.elts[1].id
                        if show(p_.ret) == kn and other and show(other[0]) == vn:
                            ok = True
            if not ok and ident and other:
                from .pyflow import single_atom as _sa

                oa = _sa(other[0])
                if oa is not None and oa[0] == "item" and show(oa[1]) == "self.members" and oa[2] == p_.ret:
                    ok = True
                elif oa is not None and oa[0] == "mcall" and oa[1] == "get" and len(oa[2]) >= 2 and show(oa[2][0]) == "self.members" and oa[2][1] == p_.ret:
                    ok = True
                else:
                    res.unsure(f"B5: get_name_by_member: the identity test `{show_lit(ident[0], True)}` is not related to the returned name `{show(p_.ret)}` in a recognised way")
                    continue
            res.inst(part="reverse-lookup", returns=show(p_.ret), under=[show_lit(k, t) for k, t in p_.guards], ok=ok)
            if not ok:
                res.bad(Finding("B5", fi.rel, fi.node.lineno, fi.qual, show(p_.ret), f"get_name_by_member returns `{show(p_.ret)}` on a path that has not established that the entry under that name is the member itself (guards: {[show_lit(k, t) for k, t in p_.guards] or 'none'}): a like-named definition of another file is taken for it", witness='two imports whose proto names collide (import legacy "v1.bitproto" where v1 declares `proto telemetry` and the importer also has a member `telemetry`): generated code refers to telemetry.Frame instead of legacy.Frame', tag="get_name_by_member:identity"))
        if n_named == 0:
            res.unsure("B5: Scope.get_name_by_member returns no name on any path")
    except Inconclusive as e:
        res.unsure(f"B5: {e}")
    return res


def _import_name_under(namevar: ast.AST, L: int, fn: ast.FunctionDef) -> str:
    """Value of the name variable under len(p) == L: last assignment whose
    guards hold."""
    if not isinstance(namevar, ast.Name):
        return src_of(namevar)
    val = None
    assigns = sorted(
        [n for n in ast.walk(fn) if isinstance(n, ast.Assign) and any(isinstance(t, ast.Name) and t.id == namevar.id for t in n.targets)],
        key=lambda n: n.lineno,
    )
    for a in assigns:
        ok = True
        for t, truth in facts_at(a, fn):
            v = eval_bool(t, L, fn)
            if v is not None and v != truth:
                ok = False
        if ok:
            val = a.value
    if val is None:
        return "?"
    s = src_of(val)
    if isinstance(val, ast.Attribute) and val.attr == "name":
        # child.name  (child is the parsed proto)
        return "child.name"
    return s


# --------------------------------------------------------------------------
# B6 error hooks
# --------------------------------------------------------------------------


@rule("B6", "p_error and t_error raise a ParserError on every path; no token regex nests overlapping unbounded repeats")
def b6(repo: Repo) -> RuleResult:
    from .pymodel import get_model

    res = RuleResult("B6", floor=2)
    g = get_grammar(repo)
    model = get_model(repo)
    parser_error = model.cls("ParserError", "errors.py")
    for rel, cls_node, hook in ((PARSER, g.parser_cls, "p_error"), (LEXER, g.lexer_cls, "t_error")):
        assert cls_node is not None
        fn = next((st for st in cls_node.body if isinstance(st, ast.FunctionDef) and st.name == hook), None)
        if fn is None:
            res.bad(Finding("B6", rel, 0, cls_node.name, hook, f"{hook} is not defined: ply then prints to stderr / raises its own LexError instead of a bitproto parser error", witness="message {", tag=f"{hook}:missing"))
            continue
        res.inst(hook=hook, statements=len(fn.body))
        if not _all_paths_raise(fn.body):
            res.bad(Finding("B6", rel, fn.lineno, f"{cls_node.name}.{hook}", "", f"{hook} can return normally; ply would then try error recovery (silently dropping tokens) or raise its own error class", witness="message M { uint8 = 1 }", tag=f"{hook}:returns"))
        for n in ast.walk(fn):
            if isinstance(n, ast.Raise) and n.exc is not None:
                c = n.exc.func if isinstance(n.exc, ast.Call) else n.exc
                cname = c.id if isinstance(c, ast.Name) else (c.value.id if isinstance(c, ast.Attribute) and isinstance(c.value, ast.Name) else None)
                cands = [k for k in model.all_classes() if k.name == cname]
                if not cands or not model.is_subclass(cands[0], parser_error):
                    res.bad(Finding("B6", rel, n.lineno, f"{cls_node.name}.{hook}", src_of(n), f"{hook} raises {cname}, which is not a ParserError", tag=f"{hook}:class"))
    return res


def _all_paths_raise(body: List[ast.stmt]) -> bool:
    for st in body:
        if isinstance(st, ast.Raise):
            return True
        if isinstance(st, ast.Return):
            return False
        if isinstance(st, ast.If):
            if st.orelse and _all_paths_raise(st.body) and _all_paths_raise(st.orelse):
                return True
            if _has_return(st):
                return False
    return False


def _has_return(st: ast.AST) -> bool:
    return any(isinstance(n, ast.Return) for n in ast.walk(st))
