"""
Call graph by rapid type analysis over (function, concrete receiver class)
units, plus the exception-escape computation used by rule A1.

Framework edges modelled explicitly:
  * dataclass construction: __init__ (if user-defined) / __post_init__,
    and for @frozen classes  freeze -> __post_freeze__ -> validate_post_freeze
  * x.freeze() on a @frozen(post_init=False) class: same chain
  * ply:  <LRParser>.parse(...)  ->  every p_* / p_error of the Parser class and
    every t_* of the Lexer class
  * property / cached_property attribute loads are calls
  * calls through local callables -> every address-taken module function
"""

from __future__ import annotations

import ast
from dataclasses import dataclass, field
from typing import Any, Dict, FrozenSet, Iterable, List, Optional, Set, Tuple

from .core import Inconclusive, Repo, parent, src_of
from .pymodel import (
    Bound,
    Bound_ext,
    ClassInfo,
    ClsObj,
    Ext,
    FuncInfo,
    FuncObj,
    Inst,
    Map,
    Model,
    Seq,
    Tup,
    Typer,
    decorator_name,
    get_model,
)

KNOWN_DECORATORS = {
    "property", "cached_property", "classmethod", "staticmethod", "abstractmethod",
    "final", "override", "overridable", "cache", "cache_if_frozen", "contextmanager",
    "override_docstring", "wraps", "overload", "unique", "dataclass", "frozen",
}

BUILTIN_EXC_PARENTS = {
    "BaseException": None,
    "Exception": "BaseException",
    "ArithmeticError": "Exception",
    "ZeroDivisionError": "ArithmeticError",
    "AssertionError": "Exception",
    "AttributeError": "Exception",
    "LookupError": "Exception",
    "IndexError": "LookupError",
    "KeyError": "LookupError",
    "OSError": "Exception",
    "IOError": "Exception",  # alias of OSError; handled below
    "FileNotFoundError": "OSError",
    "RuntimeError": "Exception",
    "NotImplementedError": "RuntimeError",
    "RecursionError": "RuntimeError",
    "TypeError": "Exception",
    "ValueError": "Exception",
    "UnicodeDecodeError": "ValueError",
    "StopIteration": "Exception",
}


@dataclass(frozen=True)
class Unit:
    fn: FuncInfo
    recv: Optional[ClassInfo]

    def __repr__(self) -> str:
        r = f"@{self.recv.name}" if self.recv and (self.fn.cls is None or self.recv != self.fn.cls) else ""
        return f"{self.fn.qual}{r}"

    @property
    def label(self) -> str:
        return repr(self)


@dataclass
class RaiseSite:
    unit: Unit
    node: ast.AST
    exc: str  # class name
    kind: str  # 'raise' | 'assert' | 'div' | 'subscript' | 'int' | 'pop' | 'getattr' | 'minmax' | 'ext'
    detail: str = ""

    @property
    def file(self) -> str:
        return self.unit.fn.rel

    @property
    def line(self) -> int:
        return getattr(self.node, "lineno", 0)


@dataclass
class Edge:
    node: ast.AST
    callee: Unit
    kind: str = "call"


class CG:
    def __init__(
        self,
        model: Model,
        entries: List[Unit],
        name: str = "",
        seed_instantiated: Optional[Iterable[ClassInfo]] = None,
        escape_instantiates_nodes: bool = True,
    ) -> None:
        self.model = model
        self.name = name
        self.entries = entries
        self.instantiated: Set[ClassInfo] = set(seed_instantiated or ())
        self.escape_instantiates_nodes = escape_instantiates_nodes
        self._node_cls: Optional[ClassInfo] = None
        for c in model.all_classes():
            if c.name == "Node" and c.rel.endswith("_ast.py"):
                self._node_cls = c
            # enum classes have their members from import time on: they count as instantiated
            if any(str(b).split(".")[-1].rstrip("_") in ("Enum", "IntEnum", "Flag", "IntFlag") for b in c.ext_bases):
                self.instantiated.add(c)
        self.units: Dict[Unit, List[Edge]] = {}
        self.sites: Dict[Unit, List[RaiseSite]] = {}
        self.typers: Dict[Unit, Typer] = {}
        self.unresolved: List[Tuple[Unit, ast.AST, str]] = []
        self.fallbacks: List[Tuple[Unit, ast.AST, str]] = []
        self.dead_virtual: List[Tuple[Unit, ast.AST, str]] = []
        self.address_taken: Set[FuncInfo] = set()
        self.external_calls: Dict[str, int] = {}
        self.unknown_decorators: Set[str] = set()
        self._build()

    # ------------------------------------------------------------ building

    def typer(self, u: Unit) -> Typer:
        if u not in self.typers:
            self.typers[u] = Typer(self.model, u.fn, u.recv)
        return self.typers[u]

    def _build(self) -> None:
        # iterate to a fixpoint: instantiated classes and address-taken
        # functions influence virtual call resolution.
        for _round in range(12):
            before = (len(self.instantiated), len(self.address_taken))
            self.units.clear()
            self.sites.clear()
            self.unresolved.clear()
            self.fallbacks.clear()
            self.dead_virtual.clear()
            self.external_calls.clear()
            work = list(self.entries)
            for e in self.entries:
                if e.recv is not None:
                    self.instantiated.add(e.recv)
            while work:
                u = work.pop()
                if u in self.units:
                    continue
                edges = self._scan_unit(u)
                self.units[u] = edges
                for ed in edges:
                    if ed.callee not in self.units:
                        work.append(ed.callee)
            after = (len(self.instantiated), len(self.address_taken))
            if after == before:
                break
        else:
            raise Inconclusive("call graph did not reach a fixpoint")

    def _instantiate(self, c: ClassInfo, node: ast.AST, out: List[Edge]) -> None:
        self.instantiated.add(c)
        m = self.model
        init = m.lookup(c, "__init__")
        if init is not None:
            out.append(Edge(node, Unit(init, c), "ctor"))
        pi = m.lookup(c, "__post_init__")
        if pi is not None and self._is_dataclass(c):
            out.append(Edge(node, Unit(pi, c), "ctor"))
        if self._frozen_mode(c) is True:
            self._freeze_edges(c, node, out)

    def _is_dataclass(self, c: ClassInfo) -> bool:
        return any("dataclass" in k.deco_names() for k in self.model.mro(c))

    def _frozen_mode(self, c: ClassInfo) -> Optional[bool]:
        # the decorator applies to the decorated class only (it patches
        # __init__ of that class; subclasses inherit the patched __init__).
        for k in self.model.mro(c):
            fm = k.frozen_mode()
            if fm is not None:
                return fm
        return None

    def _freeze_edges(self, c: ClassInfo, node: ast.AST, out: List[Edge]) -> None:
        pf = self.model.lookup(c, "__post_freeze__")
        if pf is not None:
            out.append(Edge(node, Unit(pf, c), "freeze"))

    def _virtual(self, static: ClassInfo, name: str) -> List[Unit]:
        res: List[Unit] = []
        for s in sorted(self.instantiated, key=lambda k: (k.rel, k.name)):
            if self.model.is_subclass(s, static):
                f = self.model.lookup(s, name)
                if f is not None:
                    res.append(Unit(f, s))
        return res

    def _in_annotation(self, n: ast.AST, fn_node: ast.AST) -> bool:
        p = parent(n)
        child = n
        while p is not None and child is not fn_node:
            if isinstance(p, ast.AnnAssign) and p.annotation is child:
                return True
            if isinstance(p, ast.arg):
                return True
            if isinstance(p, (ast.FunctionDef,)) and (p.returns is child):
                return True
            child, p = p, parent(p)
        return False

    def _scan_unit(self, u: Unit) -> List[Edge]:
        m = self.model
        fn = u.fn
        ty = self.typer(u)
        edges: List[Edge] = []
        sites: List[RaiseSite] = []
        self.sites[u] = sites
        for d in fn.node.decorator_list:
            dn = decorator_name(d)
            if dn not in KNOWN_DECORATORS:
                self.unknown_decorators.add(f"{fn.rel}:{fn.qual}:@{dn}")

        body_nodes: List[ast.AST] = []
        for st in fn.node.body:
            body_nodes.extend(ast.walk(st))

        call_funcs = {id(n.func) for n in body_nodes if isinstance(n, ast.Call)}

        for n in body_nodes:
            if self._in_annotation(n, fn.node):
                continue
            if isinstance(n, ast.Call):
                self._scan_call(u, ty, n, edges, sites)
            elif isinstance(n, ast.Attribute) and isinstance(n.ctx, ast.Load) and id(n) not in call_funcs:
                # property loads
                rt = ty.type_of(n.value)
                for a in rt:
                    if isinstance(a, Inst):
                        is_self = isinstance(n.value, ast.Name) and n.value.id == "self" and u.recv is not None
                        targets = [u.recv] if is_self else [s for s in self.instantiated if m.is_subclass(s, a.cls)]
                        for s in targets:
                            f = m.lookup(s, n.attr)
                            if f is not None and f.is_property:
                                edges.append(Edge(n, Unit(f, s), "property"))
                    # bound method taken as value (e.g. property(Message._get_x, ...)): ignore
            elif isinstance(n, ast.Attribute) and isinstance(n.ctx, ast.Load) and id(n) in call_funcs:
                pass
            elif isinstance(n, ast.Name) and isinstance(n.ctx, ast.Load) and id(n) not in call_funcs:
                if ty.local(n.id) is None:
                    r = m.resolve_name(ty.mod, n.id)
                    if isinstance(r, FuncInfo):
                        self.address_taken.add(r)
                    elif isinstance(r, ClassInfo) and not self._class_ref_is_test(n):
                        # class object escapes as a value: assume it gets constructed.
                        # AST node classes are constructed by the parser only
                        # (rule A6/A8 own that), so outside the parse graph a
                        # mention of a node class is not a construction.
                        is_node = self._node_cls is not None and m.is_subclass(r, self._node_cls)
                        if self.escape_instantiates_nodes or not is_node:
                            self._instantiate(r, n, edges)
            elif isinstance(n, ast.Raise):
                self._scan_raise(u, ty, n, sites)
            elif isinstance(n, ast.Assert):
                sites.append(RaiseSite(u, n, "AssertionError", "assert", src_of(n.test)))
            elif isinstance(n, ast.BinOp) and isinstance(n.op, (ast.Div, ast.FloorDiv, ast.Mod)):
                self._scan_div(u, ty, n, sites)
            elif isinstance(n, ast.AugAssign) and isinstance(n.op, (ast.Div, ast.FloorDiv, ast.Mod)):
                if not _nonzero_const(n.value):
                    sites.append(RaiseSite(u, n, "ZeroDivisionError", "div", src_of(n.value)))
            elif isinstance(n, ast.Subscript) and isinstance(n.ctx, ast.Load):
                self._scan_subscript(u, ty, n, sites)
        return edges

    def _class_ref_is_test(self, n: ast.Name) -> bool:
        """isinstance/issubclass/cast arguments, except-types, base lists and
        subscripts (generics) mention classes without constructing them."""
        p = parent(n)
        child: ast.AST = n
        if isinstance(p, ast.Attribute):
            return True  # Base.__init__(self, ...), Lexer.tokens, Cls.method
        while isinstance(p, ast.Tuple):
            child, p = p, parent(p)
        if isinstance(p, ast.Call) and isinstance(p.func, ast.Name):
            if p.func.id in ("isinstance", "issubclass") and len(p.args) == 2 and p.args[1] is child:
                return True
            if p.func.id in ("cast", "cast_or_raise", "override", "super") and p.args and p.args[0] is child:
                return True
        if isinstance(p, ast.ExceptHandler):
            return True
        if isinstance(p, ast.Subscript):
            return True
        if isinstance(p, ast.Compare):
            return True  # `definition_type is Proto`
        if isinstance(p, ast.Dict) and child in p.keys:
            return True  # CaseStyleMapping({Constant: "upper"})
        if isinstance(p, ast.ClassDef):
            return True
        # a class handed to a helper whose parameter is only ever a test operand:
        # self._resolve(p, expected=Type)  with  `isinstance(d, expected)` in the helper
        kw = p if isinstance(p, ast.keyword) else None
        call = parent(p) if kw is not None else p
        if isinstance(call, ast.Call) and isinstance(call.func, (ast.Attribute, ast.Name)) and not isinstance(getattr(call.func, "value", None), ast.Constant):
            cname = call.func.attr if isinstance(call.func, ast.Attribute) else call.func.id
            cands = [fi.node for c in self.model.all_classes() for nm, fi in c.methods.items() if nm == cname] if isinstance(call.func, ast.Attribute) else [fi.node for mod in self.model.mods.values() for nm, fi in mod.funcs.items() if nm == cname]
            if cands:
                ok_all = True
                for h in cands:
                    params = [a.arg for a in h.args.args]
                    if isinstance(call.func, ast.Attribute) and params and params[0] in ("self", "cls"):
                        params = params[1:]
                    if kw is not None:
                        pname = kw.arg
                    else:
                        idx = call.args.index(child) if child in call.args else -1
                        pname = params[idx] if 0 <= idx < len(params) else None
                    if pname is None or pname not in [a.arg for a in h.args.args] + [a.arg for a in h.args.kwonlyargs]:
                        ok_all = False
                        break
                    uses = [x for x in ast.walk(h) if isinstance(x, ast.Name) and x.id == pname and isinstance(x.ctx, ast.Load)]
                    stores = [x for x in ast.walk(h) if isinstance(x, ast.Name) and x.id == pname and isinstance(x.ctx, ast.Store)]
                    if stores or not uses:
                        ok_all = False
                        break
                    for x in uses:
                        px = parent(x)
                        cx: ast.AST = x
                        while isinstance(px, ast.Tuple):
                            cx, px = px, parent(px)
                        if isinstance(px, ast.Call) and isinstance(px.func, ast.Name) and px.func.id in ("isinstance", "issubclass") and len(px.args) == 2 and px.args[1] is cx:
                            continue
                        if isinstance(px, ast.Call) and isinstance(px.func, ast.Name) and px.func.id in ("cast", "cast_or_raise") and px.args and px.args[0] is cx:
                            continue
                        if isinstance(px, ast.Compare):
                            continue
                        ok_all = False
                        break
                    if not ok_all:
                        break
                if ok_all:
                    return True
        return False

    # -------------------------------------------------------------- calls

    def _scan_call(self, u: Unit, ty: Typer, n: ast.Call, edges: List[Edge], sites: List[RaiseSite]) -> None:
        m = self.model
        f = n.func
        if isinstance(f, ast.Name) and f.id == "cast" and len(n.args) == 2 and ty.local("cast") is None:
            r0 = m.resolve_name(ty.mod, "cast")
            if r0 is None or (isinstance(r0, tuple) and r0[0] == "ext" and "cast" in str(r0[1])):
                self._scan_cast(u, ty, n, sites)
                return
        # ---- builtins with implicit raises
        if isinstance(f, ast.Name) and ty.local(f.id) is None and m.resolve_name(ty.mod, f.id) is None:
            name = f.id
            self.external_calls[name] = self.external_calls.get(name, 0) + 1
            if name == "int" and n.args:
                at = ty.type_of(n.args[0])
                numeric = isinstance(n.args[0], (ast.BinOp, ast.UnaryOp)) or (
                    at and all(isinstance(a, Ext) and a.name in ("int", "bool", "float") for a in at)
                )
                if not numeric:
                    sites.append(RaiseSite(u, n, "ValueError", "int", src_of(n)))
            elif name in ("min", "max") and len(n.args) == 1 and not any(k.arg == "default" for k in n.keywords):
                sites.append(RaiseSite(u, n, "ValueError", "minmax", src_of(n)))
            elif name == "getattr" and len(n.args) == 2:
                sites.append(RaiseSite(u, n, "AttributeError", "getattr", src_of(n)))
            elif name == "open":
                sites.append(RaiseSite(u, n, "OSError", "ext", "open"))
            elif name == "next" and len(n.args) == 1:
                sites.append(RaiseSite(u, n, "StopIteration", "ext", src_of(n)))
            elif name == "super":
                pass
            elif name == "cast" and len(n.args) == 2:
                self._scan_cast(u, ty, n, sites)
            return

        # ---- super().m(...)
        if isinstance(f, ast.Attribute) and isinstance(f.value, ast.Call) and isinstance(f.value.func, ast.Name) and f.value.func.id == "super":
            if u.recv is None or u.fn.cls is None:
                self.unresolved.append((u, n, "super() outside a method"))
                return
            after = u.fn.cls
            sargs = f.value.args
            if sargs:
                r = m.resolve_expr_static(ty.mod, sargs[0])
                if isinstance(r, ClassInfo):
                    after = r
            target = m.lookup_super(u.recv, after, f.attr)
            if target is not None:
                edges.append(Edge(n, Unit(target, u.recv), "super"))
            elif f.attr not in ("__init__", "__init_subclass__", "__str__", "__repr__", "__setattr__"):
                self.unresolved.append((u, n, f"super().{f.attr} not found"))
            return

        # ---- explicit Base.__init__(self, ...) / object.__setattr__
        ft = ty.type_of(f)

        # ply framework edge
        if isinstance(f, ast.Attribute) and f.attr == "parse":
            rt = ty.type_of(f.value)
            if any(isinstance(a, Ext) and "LRParser" in a.name for a in rt) or (
                not rt and isinstance(f.value, ast.Attribute) and f.value.attr == "parser"
            ):
                self._ply_edges(u, n, edges)
                return

        resolved = False
        for a in ft:
            if isinstance(a, ClsObj):
                self._instantiate(a.cls, n, edges)
                resolved = True
            elif isinstance(a, FuncObj):
                edges.append(Edge(n, Unit(a.fn, None)))
                resolved = True
            elif isinstance(a, Bound):
                resolved = True
                fn = a.fn
                if fn.is_staticmethod:
                    edges.append(Edge(n, Unit(fn, None)))
                    continue
                recv_expr = f.value if isinstance(f, ast.Attribute) else None
                is_self = isinstance(recv_expr, ast.Name) and recv_expr.id in ("self", "cls") and u.recv is not None and ty.local(recv_expr.id) is not None and recv_expr.id == _first_param(u.fn)
                if is_self:
                    tgt = m.lookup(u.recv, fn.name)
                    if tgt is not None:
                        edges.append(Edge(n, Unit(tgt, u.recv)))
                    continue
                # class-level call:  Option.from_value(...), X.from_token(...), Base.__init__(self,...)
                rtypes = ty.type_of(recv_expr) if recv_expr is not None else frozenset()
                if any(isinstance(x, ClsObj) for x in rtypes) and a.recv is not None:
                    if fn.is_classmethod:
                        edges.append(Edge(n, Unit(fn, a.recv)))
                    else:
                        # unbound call with explicit self: Base.__init__(self, ...)
                        edges.append(Edge(n, Unit(fn, u.recv if u.recv and m.is_subclass(u.recv, a.recv) else a.recv)))
                    continue
                # virtual call on an instance of static class a.recv
                if a.recv is not None:
                    if fn.name == "freeze":
                        for s in sorted(self.instantiated, key=lambda k: k.name):
                            if m.is_subclass(s, a.recv) and self._frozen_mode(s) is not None:
                                self._freeze_edges(s, n, edges)
                        continue
                    targets = self._virtual(a.recv, fn.name)
                    if not targets:
                        # no instantiated class can be the receiver: dead call
                        self.dead_virtual.append((u, n, f"{a.recv.name}.{fn.name}"))
                    for t in targets:
                        edges.append(Edge(n, t, "virtual"))
            elif isinstance(a, Bound_ext):
                resolved = True
                if a.op == "pop" and isinstance(a.recv, Seq) and not n.args:
                    sites.append(RaiseSite(u, n, "IndexError", "pop", src_of(n)))
        if resolved:
            return

        # ---- unresolved
        if isinstance(f, ast.Attribute):
            name = f.attr
            rt = ty.type_of(f.value)
            ext_recv = rt and all(isinstance(a, (Ext, Seq, Tup, Map)) or (isinstance(a, tuple)) for a in rt)
            if name == "pop" and not n.args and any(isinstance(a, Seq) for a in rt):
                sites.append(RaiseSite(u, n, "IndexError", "pop", src_of(n)))
            ext_name = None
            for a in rt:
                if isinstance(a, Ext) and a.name.startswith("ext:"):
                    ext_name = a.name[4:] + "." + name
            st = m.resolve_expr_static(ty.mod, f)
            if isinstance(st, tuple) and st[0] == "ext":
                ext_name = st[1]
            if ext_name:
                self.external_calls[ext_name] = self.external_calls.get(ext_name, 0) + 1
                for exc in EXTERNAL_RAISES.get(ext_name, ()):  # summaries
                    sites.append(RaiseSite(u, n, exc, "ext", ext_name))
                return
            if ext_recv:
                self.external_calls["<builtin>." + name] = self.external_calls.get("<builtin>." + name, 0) + 1
                return
            # name-based fallback over instantiated classes defining `name`
            cands = []
            for s in sorted(self.instantiated, key=lambda k: (k.rel, k.name)):
                t = m.lookup(s, name)
                if t is not None:
                    cands.append(Unit(t, s))
            if cands and not rt:
                self.fallbacks.append((u, n, f".{name} on untyped receiver `{src_of(f.value)}`"))
                for t in cands:
                    edges.append(Edge(n, t, "fallback"))
                return
            defined_anywhere = any(name in c.methods for c in m.all_classes())
            if defined_anywhere and not rt:
                # defined in the package but on no instantiated class
                self.fallbacks.append((u, n, f".{name} on untyped receiver `{src_of(f.value)}` (no instantiated class defines it)"))
                return
            self.external_calls["<method>." + name] = self.external_calls.get("<method>." + name, 0) + 1
            return
        if isinstance(f, ast.Name):
            # call through a local callable
            for t in sorted(self.address_taken, key=lambda k: (k.rel, k.qual)):
                edges.append(Edge(n, Unit(t, None), "callable"))
            self.external_calls["<callable>" + f.id] = self.external_calls.get("<callable>" + f.id, 0) + 1
            return
        self.external_calls["<expr-call>"] = self.external_calls.get("<expr-call>", 0) + 1

    def _scan_cast(self, u: Unit, ty: Typer, n: ast.Call, sites: List[RaiseSite]) -> None:
        """typing.cast(C, e) asserts a class without testing it: if e is not a C
        the next attribute access on the result raises AttributeError.  A site
        is recorded unless the static type of e already is (a subclass of) C."""
        m = self.model
        c = m.resolve_expr_static(ty.mod, n.args[0]) if isinstance(n.args[0], (ast.Name, ast.Attribute)) else None
        if not isinstance(c, ClassInfo):
            return
        at = ty.type_of(n.args[1])
        if at and all(isinstance(a, Inst) and m.is_subclass(a.cls, c) for a in at):
            return
        sites.append(RaiseSite(u, n, "AttributeError", "cast", src_of(n)))

    def _ply_edges(self, u: Unit, n: ast.AST, edges: List[Edge]) -> None:
        m = self.model
        pc = u.recv
        if pc is None:
            return
        for k in m.mro(pc):
            for name, fi in k.methods.items():
                if name.startswith("p_"):
                    edges.append(Edge(n, Unit(m.lookup(pc, name) or fi, pc), "ply"))
        for c in list(self.instantiated) + m.all_classes():
            if c.name == "Lexer" and c.rel.endswith("lexer.py"):
                self.instantiated.add(c)
                for name, fi in c.methods.items():
                    if name.startswith("t_"):
                        edges.append(Edge(n, Unit(fi, c), "ply"))
                break

    # ------------------------------------------------------------- raises

    def exc_name(self, ty: Typer, e: Optional[ast.AST]) -> Optional[str]:
        if e is None:
            return None
        if isinstance(e, ast.Call):
            # X(...)  or  X.from_token(...)
            f = e.func
            if isinstance(f, ast.Attribute) and f.attr in ("from_token",):
                return self.exc_name(ty, f.value)
            return self.exc_name(ty, f)
        if isinstance(e, ast.Name):
            loc = ty.local(e.id)
            if loc is not None:
                for a in loc:
                    if isinstance(a, Inst):
                        return a.cls.name
                return None
            r = self.model.resolve_name(ty.mod, e.id)
            if isinstance(r, ClassInfo):
                return r.name
            return e.id
        if isinstance(e, ast.Attribute):
            r = self.model.resolve_expr_static(ty.mod, e)
            if isinstance(r, ClassInfo):
                return r.name
            return e.attr
        return None

    def _scan_raise(self, u: Unit, ty: Typer, n: ast.Raise, sites: List[RaiseSite]) -> None:
        if n.exc is None:
            sites.append(RaiseSite(u, n, "<reraise>", "raise", "bare raise"))
            return
        name = self.exc_name(ty, n.exc)
        if name is None:
            # the class is a loop variable running over a table of classes (a module constant, possibly
            # handed in as an argument): one site per class of that column
            names = self._table_classes(u, ty, n.exc)
            if names:
                for nm in names:
                    sites.append(RaiseSite(u, n, nm, "raise", src_of(n.exc)))
                return
        sites.append(RaiseSite(u, n, name or "<unknown>", "raise", src_of(n.exc)))

    def _table_classes(self, u: Unit, ty: Typer, e: ast.AST) -> List[str]:
        f = e.func if isinstance(e, ast.Call) else e
        while isinstance(f, ast.Attribute):
            f = f.value
        if not isinstance(f, ast.Name):
            return []
        var = f.id
        fn = u.fn.node
        params0 = [a.arg for a in fn.args.args]
        if var in params0 and not any(isinstance(x, ast.Name) and x.id == var and isinstance(x.ctx, ast.Store) for x in ast.walk(fn)):
            # the class is handed in by the callers
            pi = params0.index(var)
            off = 1 if params0 and params0[0] in ("self", "cls") else 0
            got: List[str] = []
            n_calls = 0
            for m_ in self.model.mods.values():
                for c in ast.walk(m_.tree):
                    if isinstance(c, ast.Call) and ((isinstance(c.func, ast.Attribute) and c.func.attr == fn.name) or (isinstance(c.func, ast.Name) and c.func.id == fn.name)):
                        ai = pi - (off if isinstance(c.func, ast.Attribute) else 0)
                        arg = c.args[ai] if 0 <= ai < len(c.args) else next((k.value for k in c.keywords if k.arg == var), None)
                        if not isinstance(arg, ast.Name):
                            return []
                        r = self.model.resolve_name(m_, arg.id)
                        if not isinstance(r, ClassInfo):
                            return []
                        n_calls += 1
                        if r.name not in got:
                            got.append(r.name)
            return got if n_calls else []
        for lp in ast.walk(fn):
            if not isinstance(lp, ast.For):
                continue
            col: Optional[int] = None
            if isinstance(lp.target, ast.Name) and lp.target.id == var:
                col = -1
            elif isinstance(lp.target, (ast.Tuple, ast.List)):
                for i, x in enumerate(lp.target.elts):
                    if isinstance(x, ast.Name) and x.id == var:
                        col = i
            if col is None:
                continue
            tables: List[ast.AST] = []
            it = lp.iter
            mod = self.model.mods[u.fn.rel]
            if isinstance(it, ast.Name):
                params = [a.arg for a in fn.args.args]
                if it.id in params and ty.local(it.id) is not None and it.id not in mod.assigns or it.id in params:
                    pi = params.index(it.id)
                    off = 1 if params and params[0] in ("self", "cls") else 0
                    for m_ in self.model.mods.values():
                        for c in ast.walk(m_.tree):
                            if isinstance(c, ast.Call) and ((isinstance(c.func, ast.Attribute) and c.func.attr == fn.name) or (isinstance(c.func, ast.Name) and c.func.id == fn.name)):
                                ai = pi - (off if isinstance(c.func, ast.Attribute) else 0)
                                arg = c.args[ai] if 0 <= ai < len(c.args) else next((k.value for k in c.keywords if k.arg == it.id), None)
                                if isinstance(arg, ast.Name) and arg.id in m_.assigns:
                                    tables.append(m_.assigns[arg.id])
                                else:
                                    return []
                elif it.id in mod.assigns:
                    tables.append(mod.assigns[it.id])
            elif isinstance(it, (ast.Tuple, ast.List)):
                tables.append(it)
            out: List[str] = []
            for t in tables:
                if not isinstance(t, (ast.Tuple, ast.List)):
                    return []
                for row in t.elts:
                    cell = row if col == -1 else (row.elts[col] if isinstance(row, (ast.Tuple, ast.List)) and col < len(row.elts) else None)
                    if not isinstance(cell, ast.Name):
                        return []
                    r = self.model.resolve_name(mod, cell.id)
                    if not isinstance(r, ClassInfo):
                        return []
                    if r.name not in out:
                        out.append(r.name)
            return out
        return []

    def _scan_div(self, u: Unit, ty: Typer, n: ast.BinOp, sites: List[RaiseSite]) -> None:
        if isinstance(n.op, ast.Mod):
            lt = ty.type_of(n.left)
            if isinstance(n.left, (ast.Constant, ast.JoinedStr)) and isinstance(getattr(n.left, "value", ""), str):
                return
            if any(isinstance(a, Ext) and a.name == "str" for a in lt):
                return
        if _nonzero_const(n.right):
            return
        sites.append(RaiseSite(u, n, "ZeroDivisionError", "div", src_of(n)))

    def _scan_subscript(self, u: Unit, ty: Typer, n: ast.Subscript, sites: List[RaiseSite]) -> None:
        if isinstance(n.slice, ast.Slice):
            return
        base = n.value
        # generic class / typing subscripts:  Block[F], List[int], T[D]
        st = self.model.resolve_expr_static(ty.mod, base) if isinstance(base, (ast.Name, ast.Attribute)) else None
        if isinstance(base, ast.Name) and ty.local(base.id) is None:
            if isinstance(st, ClassInfo) or (isinstance(st, tuple) and st[0] == "ext"):
                return
        bt = ty.type_of(base)
        exc = "LookupError"
        if bt and all(isinstance(a, Map) for a in bt):
            exc = "KeyError"
        elif bt and all(isinstance(a, (Seq, Tup)) or (isinstance(a, Ext) and a.name == "str") for a in bt):
            exc = "IndexError"
        if any(isinstance(a, Ext) and "YaccProduction" in a.name for a in bt):
            kind = "p-index"
        else:
            kind = "subscript"
        sites.append(RaiseSite(u, n, exc, kind, src_of(n)))

    # ------------------------------------------------------ exception flow

    def exc_is_subclass(self, exc: str, base: str) -> bool:
        if exc == base:
            return True
        if {exc, base} == {"IOError", "OSError"}:
            return True
        # user classes
        cands = [c for c in self.model.all_classes() if c.name == exc]
        if cands:
            c = cands[0]
            for k in self.model.mro(c):
                if k.name == base:
                    return True
                for eb in k.ext_bases:
                    if self.exc_is_subclass(eb, base):
                        return True
            return False
        p = BUILTIN_EXC_PARENTS.get(exc)
        while p is not None:
            if p == base or ({p, base} == {"IOError", "OSError"}):
                return True
            p = BUILTIN_EXC_PARENTS.get(p)
        return False

    def handlers_at(self, u: Unit, node: ast.AST) -> List[List[str]]:
        """Exception class names caught by try blocks whose *body* encloses
        node, innermost first.  [] element = bare except."""
        ty = self.typer(u)
        res: List[List[str]] = []
        child = node
        p = parent(node)
        while p is not None and child is not u.fn.node:
            if isinstance(p, ast.Try) and child in p.body:
                names: List[str] = []
                for h in p.handlers:
                    if h.type is None:
                        names.append("BaseException")
                    elif isinstance(h.type, ast.Tuple):
                        for el in h.type.elts:
                            names.append(self.exc_name(ty, el) or "?")
                    else:
                        names.append(self.exc_name(ty, h.type) or "?")
                res.append(names)
            child, p = p, parent(p)
        return res

    def caught(self, u: Unit, node: ast.AST, exc: str) -> bool:
        for names in self.handlers_at(u, node):
            for h in names:
                if self.exc_is_subclass(exc, h):
                    return True
        return False

    def escapes(self) -> Dict[Unit, Dict[Tuple[int, str], Tuple[RaiseSite, Optional[Edge]]]]:
        """For every unit: the raise sites that may propagate out of it, keyed
        by (id(site.node), exc) with the edge through which it arrives."""
        esc: Dict[Unit, Dict[Tuple[int, str], Tuple[RaiseSite, Optional[Edge]]]] = {u: {} for u in self.units}
        for u in self.units:
            for s in self.sites.get(u, []):
                if not self.caught(u, s.node, s.exc):
                    esc[u][(id(s.node), s.exc)] = (s, None)
        changed = True
        while changed:
            changed = False
            for u, edges in self.units.items():
                for ed in edges:
                    ce = esc.get(ed.callee)
                    if not ce:
                        continue
                    for key, (site, _) in list(ce.items()):
                        if key in esc[u]:
                            continue
                        if self.caught(u, ed.node, site.exc):
                            continue
                        esc[u][key] = (site, ed)
                        changed = True
        return esc

    def path_to(self, esc, entry: Unit, key: Tuple[int, str]) -> List[str]:
        path = [entry.label]
        u = entry
        seen = set()
        while True:
            site, ed = esc[u][key]
            if ed is None or (u, id(ed.node)) in seen:
                break
            seen.add((u, id(ed.node)))
            u = ed.callee
            path.append(u.label)
        return path

    def reachable_units(self) -> List[Unit]:
        return list(self.units)


def _first_param(fn: FuncInfo) -> str:
    a = fn.node.args
    allargs = list(a.posonlyargs) + list(a.args)
    return allargs[0].arg if allargs else ""


def _nonzero_const(e: ast.AST) -> bool:
    return isinstance(e, ast.Constant) and isinstance(e.value, (int, float)) and not isinstance(e.value, bool) and e.value != 0


# may-raise summaries of external calls (only what can depend on input)
EXTERNAL_RAISES: Dict[str, Tuple[str, ...]] = {
    "os.path.samefile": ("OSError",),
    "os.getcwd": ("OSError",),
    "file.read": ("OSError",),
    "file.write": ("OSError",),
    "json.dumps": ("TypeError",),
}
