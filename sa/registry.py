"""Imports every rule module so that the rules register themselves."""
from . import rules_a, rules_b, rules_c  # noqa: F401

for _m in ("rules_a2", "rules_v", "rules_d", "rules_d2", "rules_d3", "rules_e2", "rules_e", "rules_f", "rules_cc", "rules_go", "rules_rt"):
    try:
        __import__(f"sa.{_m}")
    except ModuleNotFoundError as _e:  # module not written yet
        if f"sa.{_m}" not in str(_e):
            raise
