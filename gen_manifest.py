#!/usr/bin/env python3
"""Regenerates MANIFEST.json from sa/props.py (run by hand after editing props)."""
import json, os, sys
sys.path.insert(0, os.path.dirname(os.path.abspath(__file__)))
from sa import registry  # noqa
from sa.core import all_rules
from sa.props import PROPS

NOT_APPLICABLE = json.load(open(os.path.join(os.path.dirname(__file__), "not_applicable.json"))) if os.path.exists(os.path.join(os.path.dirname(__file__), "not_applicable.json")) else {}

props = [json.loads(l) for l in open(os.path.join(os.path.dirname(__file__), "properties.jsonl"))]
rules = all_rules()
checks, na = [], []
for p in props:
    pid = p["id"]
    spec = PROPS.get(pid)
    if spec is None or any(r not in rules for r, _ in spec.rules):
        missing = [] if spec is None else [r for r, _ in spec.rules if r not in rules]
        na.append({"property_id": pid, "reason": NOT_APPLICABLE.get(pid) or ("check not built yet" + (f" (rules missing: {missing})" if missing else ""))})
        continue
    checks.append({
        "property_id": pid,
        "quick_cmd": f"python3 /verif/check {pid} --tier quick",
        "thorough_cmd": f"python3 /verif/check {pid} --tier thorough",
        "evidence_file": f"/verif/evidence/{pid}.json",
        "replay_cmd_template": f"python3 /verif/check {pid} --replay {{path}}",
        "engine": "sa",
        "level_claimed": {
            "category": "other",
            "text": "Static analysis of the current sources; decides the structural clauses that are necessary conditions of the property on every path and for every input at once. Decided: " + spec.decided + " NOT decided: " + spec.not_decided,
            "design_ref": "DESIGN.md section 4, " + pid,
        },
        "level_note": "Trusted base: CPython ast, clang's parser (C rules), ply's LALR construction, the Go subset parser in sa/gomodel.py. Rules: " + ", ".join(r for r, _ in spec.rules) + ". Invariants the analysis cannot derive are listed in beliefs.json with the rule they rest on.",
        "technique": "static analysis: " + {
            "C08": "interval extraction from validator guards + grammar/scope matrix + exception-escape over an RTA call graph",
            "C09": "exception-escape analysis over an RTA call graph with guard dominance; grammar index consistency; loop/recursion shape",
        }.get(pid, "AST rules with expression normalisation (polynomial normal form over mod8/div8/pow2), grammar model, resolved call graph"),
    })
manifest = {
    "version": 1,
    "setup_cmd": "python3 /verif/check --help >/dev/null",
    "hooks": {
        "guard": "HIT9_BITPROTO_VERIF",
        "enable": "unused: static analysis needs no instrumentation of /repo; no hook commit exists",
        "baseline_off_cmd": "cd /repo && /venv/bin/python -m pytest -ra -q -p no:cacheprovider --timeout=900 --continue-on-collection-errors",
        "source_commits": [],
        "add_only": True,
    },
    "engines": [
        {"name": "sa", "path": "/verif/sa", "serves_properties": [c["property_id"] for c in checks], "kind_free_text": "repository-specific static analyser: Python ast model with RTA call graph and exception escape, grammar/lexer model, expression normaliser + interval reasoning, Go subset parser, clang JSON AST reader"},
    ],
    "checks": checks,
    "not_applicable": na,
    "notes": "Exit codes: 0 holds, 1 VIOLATION (line `VIOLATION property=<id> replay=<path>`), 2 ANALYSIS-ERROR (anchor vanished / idiom not understood: inconclusive, not a verdict on the property). VERIF_REPO=<dir> analyses another tree. Known findings: known_findings.json; triaged invariants: beliefs.json.",
}
json.dump(manifest, open(os.path.join(os.path.dirname(__file__), "MANIFEST.json"), "w"), indent=1)
print("checks:", [c["property_id"] for c in checks])
print("not_applicable:", [n["property_id"] for n in na])
