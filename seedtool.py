#!/usr/bin/env python3
"""
seedtool.py verify <PID> <k>   - confirm a sub-agent's change in its scratch worktree /tmp/seed/<PID>:
                                 patch applies, 62 tests pass, demo fails with / passes without the patch
seedtool.py check  <PID> <k> [props...] - run /verif checks against the patched worktree (VERIF_REPO)
seedtool.py keep   <PID> <k> <seed-id>  - copy patch/demo/note into /verif/seeded/<seed-id>/ with meta.json
"""
import json, os, shutil, subprocess, sys

OUT = os.environ.get("SEED_OUT", "_out")  # sub-directory of the worktree holding patch<k>.diff / demo<k> / note<k>

def sh(cmd, **kw):
    return subprocess.run(cmd, shell=True, capture_output=True, text=True, **kw)

def wt(pid): return f"/tmp/seed/{pid}"

def demo_cmd(pid, k):
    o = f"{wt(pid)}/{OUT}"
    if os.path.exists(f"{o}/demo{k}.py"):
        return f"/venv/bin/python {o}/demo{k}.py {wt(pid)}"
    return f"bash {o}/demo{k}.sh {wt(pid)}"

def verify(pid, k):
    w = wt(pid); o = f"{w}/{OUT}"
    sh(f"git -C {w} checkout -- compiler lib")
    r = sh(f"git -C {w} apply --check {o}/patch{k}.diff")
    if r.returncode: return {"ok": False, "why": "patch does not apply: " + r.stderr[:200]}
    base = sh(demo_cmd(pid, k), timeout=600)
    sh(f"git -C {w} apply {o}/patch{k}.diff")
    tests = sh(f"cd {w} && PYTHONPATH={w}/compiler:{w}/lib/py /venv/bin/python -m pytest -q -p no:cacheprovider tests/test_compiler 'tests/test_encoding/test_encoding.py::test_encoding_issue52' 2>&1 | tail -1", timeout=900)
    mut = sh(demo_cmd(pid, k), timeout=600)
    cc = sh(f"gcc -fsyntax-only -I{w}/lib/c {w}/lib/c/bitproto.c && gcc -fsyntax-only -DBP_BIG_ENDIAN -I{w}/lib/c {w}/lib/c/bitproto.c")
    sh(f"git -C {w} checkout -- compiler lib")
    res = {"tests": tests.stdout.strip(), "demo_clean_exit": base.returncode, "demo_patched_exit": mut.returncode, "c_compiles": cc.returncode == 0}
    res["ok"] = ("62 passed" in res["tests"]) and base.returncode == 0 and mut.returncode != 0 and res["c_compiles"]
    return res

def check(pid, k, props):
    w = wt(pid); o = f"{w}/{OUT}"
    sh(f"git -C {w} checkout -- compiler lib")
    sh(f"git -C {w} apply {o}/patch{k}.diff")
    out = {}
    import tempfile
    evdir = tempfile.mkdtemp(prefix="seed-ev-")
    try:
        for p in props:
            r = sh(f"VERIF_EVIDENCE_DIR={evdir} VERIF_REPO={w} python3 /verif/check {p}", cwd="/tmp")
            lines = [l for l in r.stdout.splitlines() if l.startswith(("VIOLATION", "ANALYSIS-ERROR", "RESULT")) or "] " in l[:120] and l.startswith(("compiler", "lib"))]
            out[p] = {"exit": r.returncode, "lines": lines[:8]}
    finally:
        sh(f"git -C {w} checkout -- compiler lib")
        shutil.rmtree(evdir, ignore_errors=True)
    return out

def keep(pid, k, sid, extra):
    o = f"{wt(pid)}/{OUT}"; d = f"/verif/seeded/{sid}"
    os.makedirs(d, exist_ok=True)
    shutil.copy(f"{o}/patch{k}.diff", f"{d}/patch.diff")
    for ext in ("py", "sh"):
        if os.path.exists(f"{o}/demo{k}.{ext}"): shutil.copy(f"{o}/demo{k}.{ext}", f"{d}/demo.{ext}")
    if os.path.exists(f"{o}/note{k}.md"): shutil.copy(f"{o}/note{k}.md", f"{d}/note.md")
    json.dump(extra, open(f"{d}/meta.json", "w"), indent=1)

if __name__ == "__main__":
    cmd, pid, k = sys.argv[1], sys.argv[2], sys.argv[3]
    if cmd == "verify":
        print(json.dumps(verify(pid, k), indent=1))
    elif cmd == "check":
        props = sys.argv[4:] or [pid]
        print(json.dumps(check(pid, k, props), indent=1))
    elif cmd == "all":
        v = verify(pid, k); print(json.dumps(v, indent=1))
        props = sys.argv[4:] or [pid]
        c = check(pid, k, props); print(json.dumps(c, indent=1))
